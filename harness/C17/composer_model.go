package doccomposer

import (
	"github.com/trustbloc/sidetree-core-go/pkg/document"
	"github.com/trustbloc/sidetree-core-go/pkg/patch"
)

// ---- ordered-set reference model -------------------------------------------------------------

type vEntry struct {
	id  string
	tok string
}

type vModel struct {
	keys, services []vEntry
	aliases        []string
}

func vUpsert(list []vEntry, e vEntry) []vEntry {
	out := append([]vEntry(nil), list...)
	found := false
	for i := range out {
		if out[i].id == e.id {
			out[i] = e
			found = true
		}
	}
	if !found {
		out = append(out, e)
	}
	return out
}

func vRemove(list []vEntry, ids []string) []vEntry {
	var out []vEntry
	for _, x := range list {
		drop := false
		for _, id := range ids {
			if id == x.id {
				drop = true
			}
		}
		if !drop {
			out = append(out, x)
		}
	}
	return out
}

// ---- symbolic documents and patches ---------------------------------------------------------------

func vEntryJSON(e vEntry) map[string]interface{} {
	return map[string]interface{}{"id": e.id, "tok": e.tok}
}

func vEntries(prefix string, n int) []vEntry {
	var out []vEntry
	for i := 0; i < n; i++ {
		e := vEntry{id: VNondetString(prefix + ".id"), tok: VNondetString(prefix + ".tok")}
		for _, p := range out {
			VAssume(p.id != e.id) // a section is a set keyed by id (the validator and the composer keep it so)
		}
		out = append(out, e)
	}
	return out
}

func vListJSON(es []vEntry) []interface{} {
	var out []interface{}
	for _, e := range es {
		out = append(out, vEntryJSON(e))
	}
	return out
}

func vStrings(prefix string, n int) []string {
	var out []string
	for i := 0; i < n; i++ {
		s := VNondetString(prefix)
		for _, p := range out {
			VAssume(p != s)
		}
		out = append(out, s)
	}
	return out
}

func vStrListJSON(ss []string) []interface{} {
	var out []interface{}
	for _, s := range ss {
		out = append(out, s)
	}
	return out
}

func vDocOf(m *vModel, withOther bool) document.Document {
	d := document.Document{}
	if withOther {
		d["other"] = "member"
	}
	if len(m.keys) > 0 {
		d[document.PublicKeyProperty] = vListJSON(m.keys)
	}
	if len(m.services) > 0 {
		d[document.ServiceProperty] = vListJSON(m.services)
	}
	if len(m.aliases) > 0 {
		d[document.AlsoKnownAs] = vStrListJSON(m.aliases)
	}
	return d
}

// vReadBack extracts the three sections of a document as (id, tok) lists.
func vReadBack(d document.Document) (*vModel, bool) {
	m := &vModel{}
	ok := true
	read := func(v interface{}) []vEntry {
		var out []vEntry
		arr, _ := v.([]interface{})
		for _, x := range arr {
			mm, isMap := x.(map[string]interface{})
			if !isMap {
				ok = false
				continue
			}
			id, _ := mm["id"].(string)
			tok, _ := mm["tok"].(string)
			out = append(out, vEntry{id, tok})
		}
		return out
	}
	m.keys = read(d[document.PublicKeyProperty])
	m.services = read(d[document.ServiceProperty])
	if arr, isArr := d[document.AlsoKnownAs].([]interface{}); isArr {
		for _, x := range arr {
			s, _ := x.(string)
			m.aliases = append(m.aliases, s)
		}
	}
	return m, ok
}

func vSameEntries(a, b []vEntry) bool {
	if len(a) != len(b) {
		return false
	}
	eq := true
	for i := range a {
		eq = VAnd(eq, a[i].id == b[i].id, a[i].tok == b[i].tok)
	}
	return eq
}

func vSameStrings(a, b []string) bool {
	if len(a) != len(b) {
		return false
	}
	eq := true
	for i := range a {
		eq = VAnd(eq, a[i] == b[i])
	}
	return eq
}

// vPatch builds one patch of the given kind with symbolic ids and applies it to the reference model.
// malformed selects a patch the composer must refuse (unknown action): the whole list then fails.
func vPatch(kind int, m *vModel, malformed bool) (patch.Patch, *vModel) {
	n := VNondetRange("entries", 1, VBound("ENTRIES", 2))
	next := &vModel{keys: m.keys, services: m.services, aliases: m.aliases}
	if malformed {
		return patch.Patch{"action": "no-such-action"}, next
	}
	switch kind {
	case 0:
		es := vEntries("add.key", n)
		for _, e := range es {
			next.keys = vUpsert(next.keys, e)
		}
		return patch.Patch{"action": "add-public-keys", "publicKeys": vListJSON(es)}, next
	case 1:
		ids := vStrings("remove.key.id", n)
		next.keys = vRemove(next.keys, ids)
		return patch.Patch{"action": "remove-public-keys", "ids": vStrListJSON(ids)}, next
	case 2:
		es := vEntries("add.svc", n)
		for _, e := range es {
			next.services = vUpsert(next.services, e)
		}
		return patch.Patch{"action": "add-services", "services": vListJSON(es)}, next
	case 3:
		ids := vStrings("remove.svc.id", n)
		next.services = vRemove(next.services, ids)
		return patch.Patch{"action": "remove-services", "ids": vStrListJSON(ids)}, next
	case 4:
		uris := vStrings("add.alias", n)
		for _, u := range uris {
			dup := false
			for _, x := range next.aliases {
				if x == u {
					dup = true
				}
			}
			if !dup {
				next.aliases = append(append([]string(nil), next.aliases...), u)
			}
		}
		return patch.Patch{"action": "add-also-known-as", "uris": vStrListJSON(uris)}, next
	case 5:
		uris := vStrings("remove.alias", n)
		var keep []string
		for _, x := range next.aliases {
			drop := false
			for _, u := range uris {
				if u == x {
					drop = true
				}
			}
			if !drop {
				keep = append(keep, x)
			}
		}
		next.aliases = keep
		return patch.Patch{"action": "remove-also-known-as", "uris": vStrListJSON(uris)}, next
	default:
		ks := vEntries("replace.key", VNondetRange("replace.keys", 0, 1))
		ss := vEntries("replace.svc", VNondetRange("replace.svcs", 0, 1))
		next.keys, next.services, next.aliases = ks, ss, nil
		doc := map[string]interface{}{}
		if len(ks) > 0 {
			doc["publicKeys"] = vListJSON(ks)
		}
		if len(ss) > 0 {
			doc["services"] = vListJSON(ss)
		}
		return patch.Patch{"action": "replace", "document": doc}, next
	}
}

// VHarness_C17_composer_vs_model: REAL DocumentComposer.ApplyPatches on a symbolic document (keys,
// services, aliases with symbolic ids) and a list of symbolic patches equals the ordered-set model;
// the input document is untouched; a list with a failing patch fails as a whole.
func VHarness_C17_composer_vs_model() {
	m := &vModel{keys: vEntries("doc.key", VNondetRange("doc.keys", 0, VBound("KEYS", 2))),
		services: vEntries("doc.svc", VNondetRange("doc.svcs", 0, VBound("SVCS", 1))),
		aliases:  vStrings("doc.alias", VNondetRange("doc.aliases", 0, VBound("ALIASES", 1)))}
	// the document carries a foreign member or not; without it and without sections it is the EMPTY non-nil
	// document that create / recover hand to the composer. OTHEROPT=0 keeps the foreign member whenever the
	// document has a section (the empty document is still covered).
	withOther := true
	if len(m.keys)+len(m.services)+len(m.aliases) == 0 || VBound("OTHEROPT", 1) == 1 {
		withOther = VNondetBool("doc.other")
	}
	doc := vDocOf(m, withOther)
	members := len(doc)
	np := VNondetRange("patches", 1, VBound("PATCHES", 2))
	failAt := -1
	if VNondetBool("one-patch-fails") {
		failAt = VNondetRange("failAt", 0, np-1)
	}
	var patches []patch.Patch
	cur := m
	for i := 0; i < np; i++ {
		p, next := vPatch(VNondetRange("action", 0, 6), cur, i == failAt)
		patches = append(patches, p)
		cur = next
	}

	got, err := New().ApplyPatches(doc, patches) // REAL code

	// purity: the input document still reads back as the initial model
	back, ok := vReadBack(doc)
	VAssert("C17/input-document-not-modified", VAnd(ok, vSameEntries(back.keys, m.keys), vSameEntries(back.services, m.services), vSameStrings(back.aliases, m.aliases)))
	other, hasOther := doc["other"].(string)
	VAssert("C17/input-other-members-not-modified", VAnd(hasOther == withOther, !withOther || other == "member"))
	VAssert("C17/input-member-set-not-modified", len(doc) == members)
	if members == 0 {
		VCover("empty-input-document")
	}
	if failAt >= 0 {
		VCover("atomic-failure")
		VAssert("C17/fails-as-a-whole", VAnd(err != nil, got == nil))
		return
	}
	VAssert("C17/well-formed-patches-apply", err == nil)
	if err != nil {
		return
	}
	VCover("applied")
	res, ok2 := vReadBack(got)
	VAssert("C17/result-sections-well-formed", ok2)
	VAssert("C17/keys-follow-ordered-set-semantics", vSameEntries(res.keys, cur.keys))
	VAssert("C17/services-follow-ordered-set-semantics", vSameEntries(res.services, cur.services))
	VAssert("C17/aliases-follow-ordered-set-semantics", vSameStrings(res.aliases, cur.aliases))
	if len(cur.keys) < len(m.keys) {
		VCover("key-removed")
	}
	if len(cur.keys) > len(m.keys) {
		VCover("key-appended")
	}
}
