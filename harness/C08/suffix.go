package model

import (
	"github.com/trustbloc/sidetree-core-go/pkg/hashing"
)

// VHarness_C08_suffix: the unique suffix is the model multihash of the suffix data under the FIRST
// configured algorithm; no algorithm is an error.
func VHarness_C08_suffix() {
	sd := &SuffixDataModel{DeltaHash: VNondetString("deltaHash"), RecoveryCommitment: VNondetString("recoveryCommitment"), Type: VNondetString("type")}
	n := VNondetRange("algs", 0, 2)
	var algs []uint
	for i := 0; i < n; i++ {
		algs = append(algs, uint(18+VNondetRange("alg", 0, 1)))
	}
	s, err := GetUniqueSuffix(sd, algs)
	if n == 0 {
		VCover("no-algorithm")
		VAssert("C08/suffix-needs-an-algorithm", err != nil)
		return
	}
	VCover("computed")
	want, e := hashing.CalculateModelMultihash(sd, algs[0])
	VAssert("C08/suffix-is-multihash-of-suffix-data-under-first-algorithm", VAnd(err == nil, e == nil, s == want))
	VAssert("C08/suffix-binds-its-content", hashing.IsValidModelMultihash(sd, s) == nil)
}
