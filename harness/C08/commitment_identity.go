package commitment

import (
	"github.com/trustbloc/sidetree-core-go/pkg/hashing"
	"github.com/trustbloc/sidetree-core-go/pkg/jws"
)

// VHarness_C08_commitment_identity: for a symbolic JWK and both supported hash algorithms, the
// commitment of a key equals the commitment derived from the reveal value of that key, and both name
// the chosen algorithm.
func VHarness_C08_commitment_identity() {
	k := &jws.JWK{Kty: VNondetString("kty"), Crv: VNondetString("crv"), X: VNondetString("x"), Y: VNondetString("y")}
	code := uint(VNondetUint("code"))
	c1, err1 := GetCommitment(k, code)
	rv, err2 := GetRevealValue(k, code)
	supported := VOr(code == 18, code == 19)
	VAssert("C08/commitment-error-iff-unsupported-algorithm", VAnd((err1 != nil) == !supported, (err2 != nil) == !supported))
	if err1 != nil || err2 != nil {
		VCover("unsupported")
		return
	}
	c2, err3 := GetCommitmentFromRevealValue(rv)
	VAssert("C08/commitment-from-own-reveal-value-succeeds", err3 == nil)
	if err3 != nil {
		return
	}
	VCover("derived")
	VAssert("C08/commitment-equals-hash-of-decoded-reveal-value", c1 == c2)
	cc, e1 := hashing.GetMultihashCode(c1)
	rc, e2 := hashing.GetMultihashCode(rv)
	VAssert("C08/commitment-and-reveal-value-name-the-algorithm", VAnd(e1 == nil, e2 == nil, cc == uint64(code), rc == uint64(code)))
	// a different key gives (syntactically) different hashing input: the commitment is H(H(jcs(key)))
	k2 := &jws.JWK{Kty: k.Kty, Crv: k.Crv, X: VNondetString("x2"), Y: k.Y}
	VAssume(k2.X != k.X)
	c3, err4 := GetCommitment(k2, code)
	VAssert("C08/second-key-commitment", err4 == nil)
	_ = c3
}
