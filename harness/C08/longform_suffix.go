package dochandler

import (
	"github.com/trustbloc/sidetree-core-go/pkg/api/operation"
)

// VHarness_C08_longform_suffix_binding: the REAL resolveRequestWithInitialState resolves an unanchored
// long-form DID from its embedded initial state only if the suffix in the DID is EXACTLY the suffix the
// parser computed from that state (a byte-for-byte match: the suffix is case-sensitive base64url of a
// multihash); the parser, applier, validator and transformer are the harness collaborators of the C15
// intake harness (each may fail by symbolic choice).
func VHarness_C08_longform_suffix_binding() {
	vI = &vIntake{parseFails: VNondetBool("parseFails"), validateFails: VNondetBool("validateFails"),
		applyFails: VNondetBool("applyFails"), transformFails: VNondetBool("transformFails")}
	computed := VNondetString("computedSuffix")
	vI.op = &operation.Operation{Type: operation.TypeCreate, UniqueSuffix: computed, ID: "did:x", OperationRequest: []byte("request"),
		AnchorOrigin: VNondetString("origin")}
	h := New("ns", nil, vInClient{}, vInWriter{}, nil, vInMetrics{})
	supplied := VNondetString("suppliedSuffix")

	res, err := h.resolveRequestWithInitialState(supplied, "ns:suffix:state", []byte("request"), vInVersion{}) // REAL code

	if err != nil {
		VCover("refused")
		VAssert("C08/long-form-refusal-returns-nothing", res == nil)
		return
	}
	VCover("resolved-from-initial-state")
	VAssert("C08/long-form-suffix-is-exactly-the-computed-suffix", supplied == computed)
	VAssert("C08/long-form-resolution-needs-every-step", VAnd(!vI.parseFails, !vI.applyFails, !vI.validateFails, !vI.transformFails))
}
