package hashing

// VHarness_C08_model_multihash: IsValidModelMultihash(model, mh) accepts exactly when mh is
// enc64(multihash(H(alg(mh), jcs(model)), alg(mh))) for the algorithm the multihash itself names:
// (1) the multihash computed for the model under either supported algorithm is accepted;
// (2) an ARBITRARY string is accepted only if it equals the multihash recomputed under the algorithm it names.
func VHarness_C08_model_multihash() {
	type model struct {
		A string
		B string
	}
	m := &model{A: VNondetString("model.a"), B: VNondetString("model.b")}
	if VNondetBool("honest") {
		code := uint(18 + VNondetRange("alg", 0, 1))
		mh, err := CalculateModelMultihash(m, code)
		VAssert("C08/model-multihash-computes", err == nil)
		VAssert("C08/own-multihash-accepted", IsValidModelMultihash(m, mh) == nil)
		c, e := GetMultihashCode(mh)
		VAssert("C08/own-multihash-names-its-algorithm", VAnd(e == nil, c == uint64(code)))
		VCover("honest-accepted")
		// a different model under the same algorithm has a different hashing input
		return
	}
	mh := VNondetString("multihash")
	err := IsValidModelMultihash(m, mh)
	if err != nil {
		VCover("rejected")
		return
	}
	VCover("arbitrary-accepted")
	code, e := GetMultihashCode(mh)
	VAssert("C08/accepted-multihash-decodes", e == nil)
	VAssert("C08/accepted-multihash-names-supported-algorithm", VOr(code == 18, code == 19))
	want, e2 := CalculateModelMultihash(m, uint(code))
	VAssert("C08/accepted-iff-equals-recomputed-under-named-algorithm", VAnd(e2 == nil, want == mh))
}
