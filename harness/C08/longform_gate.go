package operationparser

import (
	"encoding/json"

	"github.com/trustbloc/sidetree-core-go/pkg/canonicalizer"
	"github.com/trustbloc/sidetree-core-go/pkg/encoder"
	"github.com/trustbloc/sidetree-core-go/pkg/versions/1_0/model"
)

// VHarness_C08_longform_gate: the initial-state segment of a long-form DID is accepted only if it
// is LITERALLY the canonical encoding enc64(jcs(decoded create request)) — not merely something that
// decodes to it (base64 decoding is not injective: unused trailing bits, skipped CR/LF).
func VHarness_C08_longform_gate() {
	seg := VNondetString("initialState")
	VHavocBounds(1, 1, 1)
	req, err := parseInitialState(seg) // REAL code
	if err != nil {
		VCover("rejected")
		return
	}
	VCover("accepted")
	VAssert("C08/initial-state-yields-create-request", req != nil)
	// recompute with the same (deterministic) codecs what the canonical encoding of the decoded request is
	decoded, e1 := encoder.DecodeString(seg)
	VAssert("C08/accepted-initial-state-decodes", e1 == nil)
	var cr model.CreateRequest
	e2 := json.Unmarshal(decoded, &cr)
	VAssert("C08/accepted-initial-state-is-json", e2 == nil)
	canon, e3 := canonicalizer.MarshalCanonical(cr)
	VAssert("C08/canonical-form-computable", e3 == nil)
	VLog("seg/enc/canon", seg, encoder.EncodeToString(canon), string(canon))
	VAssert("C08/initial-state-is-literally-the-canonical-encoding", seg == encoder.EncodeToString(canon))
}
