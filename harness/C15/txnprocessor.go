package txnprocessor

import (
	"github.com/trustbloc/sidetree-core-go/pkg/api/operation"
	"github.com/trustbloc/sidetree-core-go/pkg/api/txn"
)

type vPutStore struct {
	fail  bool
	calls [][]*operation.AnchoredOperation
}

func (s *vPutStore) Put(ops []*operation.AnchoredOperation) error {
	s.calls = append(s.calls, append([]*operation.AnchoredOperation(nil), ops...))
	if s.fail {
		return VErr("store put failed")
	}
	return nil
}

type vUnpubStore struct {
	fail  bool
	calls [][]*operation.AnchoredOperation
	after int // number of Put calls made when DeleteAll was called
	put   *vPutStore
}

func (s *vUnpubStore) DeleteAll(ops []*operation.AnchoredOperation) error {
	s.calls = append(s.calls, append([]*operation.AnchoredOperation(nil), ops...))
	s.after = len(s.put.calls)
	if s.fail {
		return VErr("delete failed")
	}
	return nil
}

func vStrs1(a []string) string {
	if len(a) != 1 {
		return "<len!=1>"
	}
	return a[0]
}

// VHarness_C15_stamp_dedupe: processTxnOperations on n operations with symbolic suffixes stores, in
// ONE Put, the first operation of every distinct suffix, each stamped with the transaction's time,
// number, protocol version and canonical / equivalent references.
func VHarness_C15_stamp_dedupe() {
	n := VNondetRange("n", 0, VBound("N", 3))
	var ops []*operation.AnchoredOperation
	types := []operation.Type{operation.TypeCreate, operation.TypeUpdate, operation.TypeRecover, operation.TypeDeactivate}
	for i := 0; i < n; i++ {
		ops = append(ops, &operation.AnchoredOperation{UniqueSuffix: VNondetString("suffix"), Type: types[VNondetRange("type", 0, 3)],
			OperationRequest: []byte{byte(i)}})
	}
	tx := &txn.SidetreeTxn{TransactionTime: VNondetU64("txn.time"), TransactionNumber: VNondetU64("txn.number"),
		ProtocolVersion: VNondetU64("txn.pv"), CanonicalReference: VNondetString("txn.canref"),
		EquivalentReferences: []string{VNondetString("txn.eqref")}, AnchorString: "1.anchor", Namespace: "ns"}
	store := &vPutStore{fail: VNondetBool("put.fails")}
	unpub := &vUnpubStore{fail: VNondetBool("delete.fails"), put: store}
	unpubTypes := []operation.Type{operation.TypeUpdate}
	p := New(&Providers{OpStore: store}, WithUnpublishedOperationStore(unpub, unpubTypes))

	count, err := p.processTxnOperations(ops, tx) // REAL code

	VAssert("C15/single-put", len(store.calls) == 1)
	if len(store.calls) != 1 {
		return
	}
	put := store.calls[0]
	// expected: first occurrence of each suffix, in order
	var want []*operation.AnchoredOperation
	for i, o := range ops {
		dup := false
		for _, prev := range ops[:i] {
			if prev.UniqueSuffix == o.UniqueSuffix {
				dup = true
			}
		}
		if !dup {
			want = append(want, o)
		}
	}
	if len(want) < n {
		VCover("duplicate-suffix-discarded")
	}
	VAssert("C15/one-operation-per-suffix-first-wins", len(put) == len(want))
	for i := range want {
		if i >= len(put) {
			break
		}
		o := put[i]
		VAssert("C15/stored-is-first-of-its-suffix", VAnd(o.UniqueSuffix == want[i].UniqueSuffix, o.OperationRequest[0] == want[i].OperationRequest[0], o.Type == want[i].Type))
		VAssert("C15/stamped-time-number-version", VAnd(o.TransactionTime == tx.TransactionTime, o.TransactionNumber == tx.TransactionNumber, o.ProtocolVersion == tx.ProtocolVersion))
		VAssert("C15/stamped-canonical-reference", o.CanonicalReference == tx.CanonicalReference)
		VAssert("C15/stamped-equivalent-references", vStrs1(o.EquivalentReferences) == vStrs1(tx.EquivalentReferences))
	}
	if store.fail {
		VCover("put-fails")
		VAssert("C15/put-error-reports-zero", VAnd(count == 0, err != nil))
		VAssert("C15/no-unpublished-delete-after-failed-put", len(unpub.calls) == 0)
		return
	}
	VAssert("C15/unpublished-delete-after-put", VAnd(len(unpub.calls) == 1, unpub.after == 1))
	if len(unpub.calls) == 1 {
		for _, d := range unpub.calls[0] {
			VAssert("C15/unpublished-delete-only-configured-types", d.Type == operation.TypeUpdate)
		}
	}
	if unpub.fail {
		VAssert("C15/delete-error-reported", err != nil)
		return
	}
	VCover("stored")
	VAssert("C15/count", VAnd(err == nil, count == len(want)))
}
