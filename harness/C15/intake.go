package dochandler

import (
	"time"

	"github.com/trustbloc/sidetree-core-go/pkg/api/operation"
	"github.com/trustbloc/sidetree-core-go/pkg/api/protocol"
	"github.com/trustbloc/sidetree-core-go/pkg/document"
)

// Harness world around the REAL DocumentHandler: every collaborator may fail by symbolic choice.
type vIntake struct {
	parseFails, validateFails, decorateFails, putFails, deleteFails, addFails, applyFails, transformFails, versionFails bool
	op      *operation.Operation
	genesis uint64

	queue     []*operation.QueuedOperation
	queuePV   []uint64
	unpubPut  []*operation.AnchoredOperation
	unpubDel  []*operation.AnchoredOperation
}

var vI *vIntake

type vInClient struct{}

func (vInClient) Current() (protocol.Version, error) { return vInVersion{}, nil }
func (vInClient) Get(uint64) (protocol.Version, error) {
	if vI.versionFails {
		return nil, VErr("protocol version not found")
	}
	return vInVersion{}, nil
}

type vInVersion struct{}

func (vInVersion) Version() string                                   { return "1.0" }
func (vInVersion) Protocol() protocol.Protocol                       { return protocol.Protocol{GenesisTime: vI.genesis} }
func (vInVersion) TransactionProcessor() protocol.TxnProcessor       { return nil }
func (vInVersion) OperationParser() protocol.OperationParser         { return vInParser{} }
func (vInVersion) OperationApplier() protocol.OperationApplier       { return vInApplier{} }
func (vInVersion) OperationHandler() protocol.OperationHandler       { return nil }
func (vInVersion) OperationProvider() protocol.OperationProvider     { return nil }
func (vInVersion) DocumentComposer() protocol.DocumentComposer       { return nil }
func (vInVersion) DocumentValidator() protocol.DocumentValidator     { return vInValidator{} }
func (vInVersion) DocumentTransformer() protocol.DocumentTransformer { return vInTransformer{} }

type vInParser struct{}

func (vInParser) Parse(ns string, buf []byte) (*operation.Operation, error) {
	if vI.parseFails {
		return nil, VErr("parse failed")
	}
	return vI.op, nil
}
func (vInParser) ParseDID(string, string) (string, []byte, error) { return "", nil, VErr("unused") }
func (vInParser) GetRevealValue([]byte) (string, error)           { return "", VErr("unused") }
func (vInParser) GetCommitment([]byte) (string, error)            { return "", VErr("unused") }

type vInApplier struct{}

func (vInApplier) Apply(op *operation.AnchoredOperation, rm *protocol.ResolutionModel) (*protocol.ResolutionModel, error) {
	if vI.applyFails {
		return nil, VErr("apply failed")
	}
	return &protocol.ResolutionModel{Doc: document.Document{"k": "v"}}, nil
}

type vInValidator struct{}

func (vInValidator) IsValidOriginalDocument([]byte) error {
	if vI.validateFails {
		return VErr("invalid document")
	}
	return nil
}
func (vInValidator) IsValidPayload([]byte) error {
	if vI.validateFails {
		return VErr("invalid payload")
	}
	return nil
}

type vInTransformer struct{}

func (vInTransformer) TransformDocument(*protocol.ResolutionModel, protocol.TransformationInfo) (*document.ResolutionResult, error) {
	if vI.transformFails {
		return nil, VErr("transform failed")
	}
	return &document.ResolutionResult{}, nil
}

type vInDecorator struct{}

func (vInDecorator) Decorate(op *operation.Operation) (*operation.Operation, error) {
	if vI.decorateFails {
		return nil, VErr("refused by decorator")
	}
	return op, nil
}

type vInWriter struct{}

func (vInWriter) Add(op *operation.QueuedOperation, pv uint64) error {
	if vI.addFails {
		return VErr("queue add failed")
	}
	vI.queue = append(vI.queue, op)
	vI.queuePV = append(vI.queuePV, pv)
	return nil
}

type vInUnpub struct{}

func (vInUnpub) Put(op *operation.AnchoredOperation) error {
	if vI.putFails {
		return VErr("unpublished put failed")
	}
	vI.unpubPut = append(vI.unpubPut, op)
	return nil
}
func (vInUnpub) Delete(op *operation.AnchoredOperation) error {
	if vI.deleteFails {
		return VErr("unpublished delete failed")
	}
	vI.unpubDel = append(vI.unpubDel, op)
	return nil
}

type vInMetrics struct{}

func (vInMetrics) ProcessOperation(time.Duration)             {}
func (vInMetrics) GetProtocolVersionTime(time.Duration)       {}
func (vInMetrics) ParseOperationTime(time.Duration)           {}
func (vInMetrics) ValidateOperationTime(time.Duration)        {}
func (vInMetrics) DecorateOperationTime(time.Duration)        {}
func (vInMetrics) AddUnpublishedOperationTime(time.Duration)  {}
func (vInMetrics) AddOperationToBatchTime(time.Duration)      {}
func (vInMetrics) GetCreateOperationResultTime(time.Duration) {}

var vTypes = []operation.Type{operation.TypeCreate, operation.TypeUpdate, operation.TypeRecover, operation.TypeDeactivate}

// VHarness_C15_intake_no_trace: ProcessOperation with every collaborator failing or not by symbolic
// choice. An error return leaves the queue and (net) the unpublished store untouched; success queues
// exactly one entry carrying the parsed operation's data and the genesis time of its version.
func VHarness_C15_intake_no_trace() {
	typ := vTypes[VNondetRange("optype", 0, 3)]
	vI = &vIntake{parseFails: VNondetBool("parseFails"), validateFails: VNondetBool("validateFails"), decorateFails: VNondetBool("decorateFails"),
		putFails: VNondetBool("putFails"), deleteFails: VNondetBool("deleteFails"), addFails: VNondetBool("addFails"),
		applyFails: VNondetBool("applyFails"), transformFails: VNondetBool("transformFails"), versionFails: VNondetBool("versionFails"),
		genesis: VNondetU64("genesis")}
	vI.op = &operation.Operation{Type: typ, UniqueSuffix: VNondetString("suffix"), ID: "did:x", OperationRequest: []byte("request"),
		AnchorOrigin: VNondetString("origin"), Properties: []operation.Property{{Key: "k", Value: VNondetString("propval")}}}
	withStore := VNondetBool("withUnpublishedStore")
	var opts []Option
	opts = append(opts, WithOperationDecorator(vInDecorator{}))
	if withStore {
		opts = append(opts, WithUnpublishedOperationStore(vInUnpub{}, []operation.Type{typ}))
	}
	h := New("ns", nil, vInClient{}, vInWriter{}, nil, vInMetrics{}, opts...)

	_, err := h.ProcessOperation([]byte("request"), VNondetU64("requestedVersion")) // REAL code

	net := len(vI.unpubPut) - len(vI.unpubDel)
	if err != nil {
		VCover("refused")
		VAssert("C15/refused-operation-not-queued", len(vI.queue) == 0)
		if !vI.deleteFails {
			VAssert("C15/refused-operation-not-in-unpublished-store", net == 0)
		}
		return
	}
	VCover("accepted")
	VAssert("C15/accepted-queued-exactly-once", len(vI.queue) == 1)
	if len(vI.queue) == 1 {
		q := vI.queue[0]
		o, _ := q.AnchorOrigin.(string)
		wo, _ := vI.op.AnchorOrigin.(string)
		pv, _ := q.Properties[0].Value.(string)
		wpv, _ := vI.op.Properties[0].Value.(string)
		VAssert("C15/queued-entry-carries-operation", VAnd(q.Type == typ, q.UniqueSuffix == vI.op.UniqueSuffix, q.Namespace == "ns",
			string(q.OperationRequest) == "request", o == wo, len(q.Properties) == 1, pv == wpv))
		VAssert("C15/queued-under-genesis-time-of-its-version", vI.queuePV[0] == vI.genesis)
	}
	if withStore {
		VAssert("C15/accepted-in-unpublished-store-once", net == 1)
	}
}

// ---- C04: the default decorator refuses operations on a deactivated DID ----

type vDecProcessor struct {
	rm  *protocol.ResolutionModel
	err bool
}

func (p *vDecProcessor) Resolve(string, ...document.ResolutionOption) (*protocol.ResolutionModel, error) {
	if p.err {
		return nil, VErr("not found")
	}
	return p.rm, nil
}

func VHarness_C04_decorator_refuses() {
	typ := vTypes[VNondetRange("optype", 0, 3)]
	proc := &vDecProcessor{err: VNondetBool("resolveFails"), rm: &protocol.ResolutionModel{Deactivated: VNondetBool("deactivated"), AnchorOrigin: VNondetString("origin")}}
	d := &defaultOperationDecorator{processor: proc}
	op := &operation.Operation{Type: typ, UniqueSuffix: "s"}
	got, err := d.Decorate(op)
	if typ == operation.TypeCreate {
		VCover("create")
		VAssert("C04/decorator-passes-create", VAnd(err == nil, got == op))
		return
	}
	if proc.err {
		VAssert("C04/decorator-unresolvable-refused", err != nil)
		return
	}
	if proc.rm.Deactivated {
		VCover("deactivated-refused")
	} else {
		VCover("active-accepted")
	}
	VAssert("C04/decorator-refuses-iff-deactivated", (err != nil) == proc.rm.Deactivated)
}
