package observer

import (
	"github.com/trustbloc/sidetree-core-go/pkg/api/operation"
	"github.com/trustbloc/sidetree-core-go/pkg/api/protocol"
	"github.com/trustbloc/sidetree-core-go/pkg/api/txn"
	"github.com/trustbloc/sidetree-core-go/pkg/versions/1_0/txnprocessor"
)

// One symbolic fault choice per transaction and step.
type vTxnPlan struct {
	nsFails, versionFails, readFails, putFails bool
	ops                                        []*operation.AnchoredOperation
}

type vObsWorld struct {
	plans  map[string]*vTxnPlan // by anchor string
	stored [][]*operation.AnchoredOperation
	order  []string
}

var vO *vObsWorld

type vClientProvider struct{}

func (vClientProvider) ForNamespace(ns string) (protocol.Client, error) {
	if vO.plans[ns].nsFails {
		return nil, VErr("namespace not found")
	}
	return vObsClient{ns}, nil
}

type vObsClient struct{ ns string }

func (c vObsClient) Current() (protocol.Version, error) { return nil, VErr("unused") }
func (c vObsClient) Get(uint64) (protocol.Version, error) {
	if vO.plans[c.ns].versionFails {
		return nil, VErr("protocol version not found")
	}
	return vObsVersion{c.ns}, nil
}

type vObsVersion struct{ ns string }

func (v vObsVersion) Version() string             { return "1.0" }
func (v vObsVersion) Protocol() protocol.Protocol { return protocol.Protocol{} }
func (v vObsVersion) TransactionProcessor() protocol.TxnProcessor {
	// the REAL transaction processor over harness providers
	return txnprocessor.New(&txnprocessor.Providers{OpStore: vObsStore{v.ns}, OperationProtocolProvider: vObsProvider{}})
}
func (v vObsVersion) OperationParser() protocol.OperationParser         { return nil }
func (v vObsVersion) OperationApplier() protocol.OperationApplier       { return nil }
func (v vObsVersion) OperationHandler() protocol.OperationHandler       { return nil }
func (v vObsVersion) OperationProvider() protocol.OperationProvider     { return vObsProvider{} }
func (v vObsVersion) DocumentComposer() protocol.DocumentComposer       { return nil }
func (v vObsVersion) DocumentValidator() protocol.DocumentValidator     { return nil }
func (v vObsVersion) DocumentTransformer() protocol.DocumentTransformer { return nil }

type vObsProvider struct{}

func (vObsProvider) GetTxnOperations(t *txn.SidetreeTxn) ([]*operation.AnchoredOperation, error) {
	vO.order = append(vO.order, t.AnchorString)
	p := vO.plans[t.Namespace]
	if p.readFails {
		return nil, VErr("cas read / parse failed")
	}
	return p.ops, nil
}

type vObsStore struct{ ns string }

func (s vObsStore) Put(ops []*operation.AnchoredOperation) error {
	if vO.plans[s.ns].putFails {
		return VErr("put failed")
	}
	vO.stored = append(vO.stored, append([]*operation.AnchoredOperation(nil), ops...))
	return nil
}

// VHarness_C15_observer_isolation: Observer.process over k transactions, each of whose steps
// (namespace lookup, version lookup, CAS read/parse, store write) fails or not by symbolic choice,
// with the REAL TxnProcessor in between: the store ends up with exactly the operations of the
// transactions that went through, a failing one contributes nothing and stops nothing.
func VHarness_C15_observer_isolation() {
	k := VBound("K", 2)
	vO = &vObsWorld{plans: map[string]*vTxnPlan{}}
	var txns []txn.SidetreeTxn
	names := []string{"ns0", "ns1", "ns2", "ns3"}
	for i := 0; i < k; i++ {
		p := &vTxnPlan{nsFails: VNondetBool("nsFails"), versionFails: VNondetBool("versionFails"), readFails: VNondetBool("readFails"), putFails: VNondetBool("putFails")}
		m := VNondetRange("nops", 0, 2)
		for j := 0; j < m; j++ {
			p.ops = append(p.ops, &operation.AnchoredOperation{UniqueSuffix: VNondetString("suffix"), Type: operation.TypeUpdate, OperationRequest: []byte{byte(10*i + j)}})
		}
		vO.plans[names[i]] = p
		txns = append(txns, txn.SidetreeTxn{Namespace: names[i], AnchorString: names[i], TransactionTime: uint64(100 + i), TransactionNumber: uint64(i),
			CanonicalReference: "ref-" + names[i]})
	}
	o := New(&Providers{ProtocolClientProvider: vClientProvider{}})

	o.process(txns) // REAL code

	// expected store content
	idx := 0
	for i := 0; i < k; i++ {
		p := vO.plans[names[i]]
		if p.nsFails || p.versionFails || p.readFails || p.putFails {
			VCover("transaction-failed")
			continue
		}
		VCover("transaction-stored")
		if idx >= len(vO.stored) {
			VAssert("C15/successful-transaction-is-stored", false)
			return
		}
		got := vO.stored[idx]
		idx++
		// at most one operation per suffix, all stamped with this transaction
		for a, x := range got {
			VAssert("C15/observer-stamped-with-own-transaction", VAnd(x.TransactionTime == uint64(100+i), x.TransactionNumber == uint64(i), x.CanonicalReference == "ref-"+names[i]))
			for _, y := range got[:a] {
				VAssert("C15/observer-one-per-suffix", x.UniqueSuffix != y.UniqueSuffix)
			}
		}
		VAssert("C15/observer-stores-no-more-than-read", len(got) <= len(p.ops))
	}
	VAssert("C15/failed-transaction-contributes-nothing", idx == len(vO.stored))
}
