package observer

import (
	"github.com/trustbloc/sidetree-core-go/pkg/api/operation"
	"github.com/trustbloc/sidetree-core-go/pkg/api/protocol"
	"github.com/trustbloc/sidetree-core-go/pkg/api/txn"
	"github.com/trustbloc/sidetree-core-go/pkg/versions/1_0/txnprocessor"
)

// One symbolic fault choice per transaction and step.
type vTxnPlan struct {
	nsFails, versionFails, readFails, putFails bool
	ops                                        []*operation.AnchoredOperation
}

type vObsWorld struct {
	nsOf           map[string]string // anchor string -> namespace
	cur            string            // anchor string of the transaction being processed
	wrongNamespace bool
	plans          map[string]*vTxnPlan // by anchor string
	stored         [][]*operation.AnchoredOperation
	genesis        uint64
	order          []string
}

var vO *vObsWorld

type vClientProvider struct{}

var vNsFails map[string]bool
var vTxnNames = []string{"t0", "t1", "t2", "t3"}

func (vClientProvider) ForNamespace(ns string) (protocol.Client, error) {
	if vNsFails[ns] {
		return nil, VErr("namespace not found")
	}
	return vObsClient{ns}, nil
}

type vObsClient struct{ ns string }

func (c vObsClient) Current() (protocol.Version, error) { return nil, VErr("unused") }

// every transaction carries its own index as protocol version, which identifies it here
func (c vObsClient) Get(version uint64) (protocol.Version, error) {
	name := vTxnNames[int(version)]
	if vO.plans[name].versionFails {
		return nil, VErr("protocol version not found")
	}
	return vObsVersion{c.ns}, nil
}

type vObsVersion struct{ ns string }

func (v vObsVersion) Version() string { return "1.0" }

// the genesis time of the version in force is arbitrary: it is NOT the transaction's protocol version
func (v vObsVersion) Protocol() protocol.Protocol { return protocol.Protocol{GenesisTime: vO.genesis} }
func (v vObsVersion) TransactionProcessor() protocol.TxnProcessor {
	// the REAL transaction processor over harness providers
	return txnprocessor.New(&txnprocessor.Providers{OpStore: vObsStore{v.ns}, OperationProtocolProvider: vObsProvider{v.ns}})
}
func (v vObsVersion) OperationParser() protocol.OperationParser         { return nil }
func (v vObsVersion) OperationApplier() protocol.OperationApplier       { return nil }
func (v vObsVersion) OperationHandler() protocol.OperationHandler       { return nil }
func (v vObsVersion) OperationProvider() protocol.OperationProvider     { return vObsProvider{v.ns} }
func (v vObsVersion) DocumentComposer() protocol.DocumentComposer       { return nil }
func (v vObsVersion) DocumentValidator() protocol.DocumentValidator     { return nil }
func (v vObsVersion) DocumentTransformer() protocol.DocumentTransformer { return nil }

type vObsProvider struct{ ns string }

func (pr vObsProvider) GetTxnOperations(t *txn.SidetreeTxn) ([]*operation.AnchoredOperation, error) {
	vO.order = append(vO.order, t.AnchorString)
	vO.cur = t.AnchorString
	// a transaction must be read through the provider of ITS namespace
	if pr.ns != t.Namespace {
		vO.wrongNamespace = true
	}
	p := vO.plans[t.AnchorString]
	if p.readFails {
		return nil, VErr("cas read / parse failed")
	}
	return p.ops, nil
}

type vObsStore struct{ ns string }

func (s vObsStore) Put(ops []*operation.AnchoredOperation) error {
	if vO.plans[vO.cur].putFails {
		return VErr("put failed")
	}
	if s.ns != vO.nsOf[vO.cur] {
		vO.wrongNamespace = true
	}
	vO.stored = append(vO.stored, append([]*operation.AnchoredOperation(nil), ops...))
	return nil
}

// VHarness_C15_observer_isolation: Observer.process over k transactions, each of whose steps
// (namespace lookup, version lookup, CAS read/parse, store write) fails or not by symbolic choice,
// with the REAL TxnProcessor in between: the store ends up with exactly the operations of the
// transactions that went through, a failing one contributes nothing and stops nothing.
func VHarness_C15_observer_isolation() {
	k := VBound("K", 3)
	vO = &vObsWorld{plans: map[string]*vTxnPlan{}, nsOf: map[string]string{}}
	var txns []txn.SidetreeTxn
	nss := []string{"nsA", "nsB"}
	// namespace-level faults (lookup of the namespace / of the protocol version) are per NAMESPACE; read and
	// store faults are per transaction. Consecutive transactions may share a namespace.
	nsFails := map[string]bool{"nsA": VNondetBool("nsA.lookupFails"), "nsB": VNondetBool("nsB.lookupFails")}
	vNsFails = nsFails
	names := vTxnNames
	for i := 0; i < k; i++ {
		ns := nss[VNondetRange("namespace", 0, 1)]
		p := &vTxnPlan{nsFails: nsFails[ns], versionFails: VNondetBool("versionFails"), readFails: VNondetBool("readFails"), putFails: VNondetBool("putFails")}
		m := VNondetRange("nops", 0, 1)
		for j := 0; j < m; j++ {
			p.ops = append(p.ops, &operation.AnchoredOperation{UniqueSuffix: VNondetString("suffix"), Type: operation.TypeUpdate, OperationRequest: []byte{byte(10*i + j)}})
		}
		vO.plans[names[i]] = p
		vO.nsOf[names[i]] = ns
		txns = append(txns, txn.SidetreeTxn{Namespace: ns, AnchorString: names[i], TransactionTime: uint64(100 + i), TransactionNumber: uint64(i),
			ProtocolVersion: uint64(i), CanonicalReference: "ref-" + names[i]})
	}
	vO.genesis = VNondetU64("version.genesisTime")
	o := New(&Providers{ProtocolClientProvider: vClientProvider{}})

	o.process(txns) // REAL code

	// expected store content
	idx := 0
	for i := 0; i < k; i++ {
		p := vO.plans[names[i]]
		if p.nsFails || p.versionFails || p.readFails || p.putFails {
			VCover("transaction-failed")
			continue
		}
		VCover("transaction-stored")
		if idx >= len(vO.stored) {
			VAssert("C15/successful-transaction-is-stored", false)
			return
		}
		got := vO.stored[idx]
		idx++
		for a, x := range got {
			VAssert("C15/observer-stamped-with-own-transaction", VAnd(x.TransactionTime == uint64(100+i), x.TransactionNumber == uint64(i), x.CanonicalReference == "ref-"+names[i]))
			VAssert("C15/observer-stamped-with-own-protocol-version", x.ProtocolVersion == uint64(i))
			for _, y := range got[:a] {
				VAssert("C15/observer-one-per-suffix", x.UniqueSuffix != y.UniqueSuffix)
			}
		}
		VAssert("C15/observer-stores-no-more-than-read", len(got) <= len(p.ops))
	}
	VAssert("C15/failed-transaction-contributes-nothing", idx == len(vO.stored))
	VAssert("C15/transactions-processed-under-their-own-namespace", !vO.wrongNamespace)
}
