package jws

import (
	"crypto/ecdsa"
	"crypto/ed25519"
	"math/big"

	"github.com/trustbloc/sidetree-core-go/pkg/jws"
)

const vJWSPkg = "github.com/trustbloc/sidetree-core-go/pkg/internal/jws"

type vGate struct {
	ecKey      *ecdsa.PublicKey
	edKey      string
	bigBytes   map[*big.Int]string
	ecCalls    []vECCall
	edCalls    []vEdCall
	ecOK, edOK bool
}

type vECCall struct {
	pub  *ecdsa.PublicKey
	hash string
	r, s string
}
type vEdCall struct{ pub, msg, sig string }

var vG *vGate

// vInstallGateStubs: JWK decoding is typed havoc (an EC key, an Ed25519 key of any length, something
// else, or an error); the two verification primitives are uninterpreted outcomes with an argument log.
func vInstallGateStubs() {
	vG = &vGate{bigBytes: map[*big.Int]string{}, ecOK: VNondetBool("ecdsa.Verify"), edOK: VNondetBool("ed25519.Verify")}
	VStub("(*"+vJWSPkg+".JWK).UnmarshalJSON", func(j *JWK, b []byte) error {
		if VNondetBool("jwk.decodeFails") {
			return VErr("unable to read JWK")
		}
		switch VNondetRange("jwk.keyKind", 0, 2) {
		case 0:
			vG.ecKey = &ecdsa.PublicKey{}
			j.JSONWebKey.Key = vG.ecKey
		case 1:
			k := VNondetBytes("jwk.ed25519Key")
			vG.edKey = string(k)
			j.JSONWebKey.Key = ed25519.PublicKey(k)
		default:
			j.JSONWebKey.Key = "neither"
		}
		return nil
	})
	VStub("(*math/big.Int).SetBytes", func(z *big.Int, b []byte) *big.Int {
		vG.bigBytes[z] = string(b)
		return z
	})
	VStub("crypto/ecdsa.Verify", func(pub *ecdsa.PublicKey, hash []byte, r, s *big.Int) bool {
		vG.ecCalls = append(vG.ecCalls, vECCall{pub, string(hash), vG.bigBytes[r], vG.bigBytes[s]})
		return vG.ecOK
	})
	VStub("crypto/ed25519.Verify", func(pub ed25519.PublicKey, msg, sig []byte) bool {
		vG.edCalls = append(vG.edCalls, vEdCall{string(pub), string(msg), string(sig)})
		return vG.edOK
	})
}

// VHarness_C09_verify_gate: VerifySignature accepts only (EC, one of the four curves, signature of
// exactly 2k bytes split at k, message hashed with that curve's hash, primitive true, on the decoded
// key) or (OKP, 32-byte Ed25519 key, primitive true on the untouched message and signature); every other
// key type / curve / size is an error and never a panic.
func VHarness_C09_verify_gate() {
	vInstallGateStubs()
	key := &jws.JWK{Kty: VNondetString("kty"), Crv: VNondetString("crv"), X: VNondetString("x"), Y: VNondetString("y")}
	sig := VNondetBytes("signature")
	msg := VNondetBytes("message")
	VAssume(VAnd(len(sig) <= 200, len(msg) <= 64))

	err := VerifySignature(key, sig, msg) // REAL code

	if err != nil {
		VCover("rejected")
		return
	}
	VCover("accepted")
	VAssert("C09/accepted-key-type-is-EC-or-OKP", VOr(key.Kty == "EC", key.Kty == "OKP"))
	if key.Kty == "EC" {
		VCover("accepted-ec")
		k, alg := uint64(0), uint64(0) // coordinate size in bytes, crypto.Hash id
		known := true
		switch key.Crv {
		case "P-256":
			k, alg = 32, 5
		case "P-384":
			k, alg = 48, 6
		case "P-521":
			k, alg = 66, 7
		case "secp256k1":
			k, alg = 32, 5
		default:
			known = false
		}
		VAssert("C09/ec-curve-supported", known)
		VAssert("C09/ec-signature-exactly-2k-bytes", uint64(len(sig)) == 2*k)
		VAssert("C09/ec-primitive-consulted-once-and-true", VAnd(len(vG.ecCalls) == 1, vG.ecOK))
		if len(vG.ecCalls) == 1 && known && uint64(len(sig)) == 2*k {
			c := vG.ecCalls[0]
			VAssert("C09/ec-verified-under-the-decoded-key", c.pub == vG.ecKey)
			VAssert("C09/ec-message-hashed-with-the-curve-hash", c.hash == VUFString("crypto.hash", alg, string(msg)))
			VAssert("C09/ec-r-is-first-half-s-is-second-half", VAnd(c.r == string(sig[:k]), c.s == string(sig[k:])))
		}
	} else {
		VCover("accepted-okp")
		VAssert("C09/ed25519-primitive-consulted-once-and-true", VAnd(len(vG.edCalls) == 1, vG.edOK))
		if len(vG.edCalls) == 1 {
			c := vG.edCalls[0]
			VAssert("C09/ed25519-key-is-32-bytes", len(c.pub) == 32)
			VAssert("C09/ed25519-verified-decoded-key-message-signature", VAnd(c.pub == vG.edKey, c.msg == string(msg), c.sig == string(sig)))
		}
	}
}
