package jws

import (
	"encoding/base64"
	"strings"

	gojose "github.com/square/go-jose/v3/json"

	"github.com/trustbloc/sidetree-core-go/pkg/jws"
)

type vVerifyCall struct {
	key   *jws.JWK
	sig   string
	input string
}

// VHarness_C09_compact_gate: ParseJWS / VerifyJWS on "<a>.<b>.<c>" with a, b, c arbitrary dot-free
// strings (and on strings with 0, 1 and 3 dots): accepted => exactly three parts, the decoded protected
// header has "alg", payload and signature are non-empty; VerifyJWS hands the verifier exactly
// (key, decoded signature, enc(header JSON) "." (enc(payload) | payload)) and a non-boolean b64 is an error.
func VHarness_C09_compact_gate() {
	a, b, c, d := VNondetString("a"), VNondetString("b"), VNondetString("c"), VNondetString("d")
	VAssume(VAnd(!strings.Contains(a, "."), !strings.Contains(b, "."), !strings.Contains(c, "."), !strings.Contains(d, ".")))
	VHavocBounds(1, 1, 2)
	dots := VNondetRange("dots", 0, 3)
	var s string
	switch dots {
	case 0:
		s = a
	case 1:
		s = a + "." + b
	case 2:
		s = a + "." + b + "." + c
	default:
		s = a + "." + b + "." + c + "." + d
	}
	var calls []vVerifyCall
	verifyOK := VNondetBool("verifySignature.ok")
	VStub(vJWSPkg+".VerifySignature", func(k *jws.JWK, sig, msg []byte) error {
		calls = append(calls, vVerifyCall{k, string(sig), string(msg)})
		if !verifyOK {
			return VErr("invalid signature")
		}
		return nil
	})
	key := &jws.JWK{Kty: "EC", Crv: "P-256"}

	parsed, err := VerifyJWS(s, key) // REAL code

	if dots != 2 {
		VAssert("C09/compact-needs-exactly-three-parts", err != nil)
		return
	}
	if err != nil {
		VCover("rejected")
		return
	}
	VCover("accepted")
	_, hasAlg := parsed.ProtectedHeaders["alg"]
	VAssert("C09/accepted-header-has-alg", hasAlg)
	VAssert("C09/accepted-payload-and-signature-non-empty", VAnd(len(parsed.Payload) > 0, len(parsed.signature) > 0))
	VAssert("C09/verifier-consulted-once-and-true", VAnd(len(calls) == 1, verifyOK))
	if len(calls) != 1 {
		return
	}
	call := calls[0]
	// expected pieces, recomputed with the same (deterministic) codec functions
	sigBytes, e1 := base64.RawURLEncoding.DecodeString(c)
	payload, e2 := base64.RawURLEncoding.DecodeString(b)
	VAssert("C09/accepted-parts-decode", VAnd(e1 == nil, e2 == nil))
	VAssert("C09/verified-with-the-given-key", call.key == key)
	VAssert("C09/verified-decoded-signature", call.sig == string(sigBytes))
	hb, _ := gojose.Marshal(parsed.ProtectedHeaders)
	wantPayload := base64.RawURLEncoding.EncodeToString(payload)
	if b64, has := parsed.ProtectedHeaders["b64"]; has {
		flag, isBool := b64.(bool)
		VAssert("C09/b64-header-must-be-boolean", isBool)
		if isBool && !flag {
			wantPayload = string(payload)
			VCover("unencoded-payload")
		}
	}
	VAssert("C09/signing-input-is-header-dot-payload", call.input == base64.RawURLEncoding.EncodeToString(hb)+"."+wantPayload)
}
