package jws

import (
	"crypto/elliptic"
	"math/big"

	"github.com/btcsuite/btcd/btcec"
)

// VHarness_C09_secp256k1_jwk: the REAL (*JWK).UnmarshalJSON on a secp256k1 key whose decoded coordinates
// have arbitrary (symbolic) length (the JSON/base64 decoding itself is replaced by handing the decoded
// members over): accepted => X and Y present and exactly 32 bytes, D absent or exactly 32 bytes, and the
// point (X, Y) passed the on-curve test; the size arithmetic is the real code. The harness enters through
// the method, not through the unexported helper, so that refactorings of the helper do not break it.
func VHarness_C09_secp256k1_jwk() {
	bytesOf := map[*big.Int]string{}
	pTok := new(big.Int)
	VStub("github.com/btcsuite/btcd/btcec.S256", func() *btcec.KoblitzCurve {
		return &btcec.KoblitzCurve{CurveParams: &elliptic.CurveParams{BitSize: 256, P: pTok}}
	})
	VStub("(*math/big.Int).BitLen", func(x *big.Int) int { return 256 })
	VStub("(*math/big.Int).SetBytes", func(z *big.Int, b []byte) *big.Int {
		bytesOf[z] = string(b)
		return z
	})
	var onCurveX, onCurveY string
	onCurveCalls := 0
	onCurve := VNondetBool("isOnCurve")
	VStub("(*github.com/btcsuite/btcd/btcec.KoblitzCurve).IsOnCurve", func(_ *btcec.KoblitzCurve, x, y *big.Int) bool {
		onCurveCalls++
		onCurveX, onCurveY = bytesOf[x], bytesOf[y]
		return onCurve
	})
	key := &jsonWebKey{Kty: "EC", Crv: "secp256k1"}
	var xb, yb, db []byte
	if VNondetBool("hasX") {
		xb = VNondetBytes("x")
		key.X = &byteBuffer{data: xb}
	}
	if VNondetBool("hasY") {
		yb = VNondetBytes("y")
		key.Y = &byteBuffer{data: yb}
	}
	if VNondetBool("hasD") {
		db = VNondetBytes("d")
		key.D = &byteBuffer{data: db}
	}
	VAssume(VAnd(len(xb) <= 64, len(yb) <= 64, len(db) <= 64))

	decode := func(data []byte, v interface{}) error {
		if k, ok := v.(*jsonWebKey); ok {
			*k = *key
			return nil
		}
		return VErr("json: not the secp256k1 key form")
	}
	VStub("encoding/json.Unmarshal", decode)
	VStub("github.com/square/go-jose/v3/json.Unmarshal", decode)
	jwk := &JWK{}
	err := jwk.UnmarshalJSON([]byte("{}")) // REAL code

	if err != nil {
		VCover("rejected")
		return
	}
	VCover("accepted")
	VAssert("C09/secp256k1-x-and-y-present", key.X != nil && key.Y != nil)
	VAssert("C09/secp256k1-coordinates-exactly-32-bytes", VAnd(len(xb) == 32, len(yb) == 32))
	if key.D != nil {
		VCover("with-private-part")
		VAssert("C09/secp256k1-d-exactly-32-bytes", len(db) == 32)
	}
	VAssert("C09/secp256k1-on-curve-test-consulted-and-true", VAnd(onCurveCalls == 1, onCurve))
	VAssert("C09/secp256k1-on-curve-test-on-the-given-point", VAnd(onCurveX == string(xb), onCurveY == string(yb)))
	VAssert("C09/secp256k1-key-returned", jwk.JSONWebKey.Key != nil)
}
