package ecsigner

import (
	"crypto/ecdsa"
	"crypto/elliptic"
	"io"
	"math/big"

	"github.com/btcsuite/btcd/btcec"

	internaljws "github.com/trustbloc/sidetree-core-go/pkg/internal/jws"
	"github.com/trustbloc/sidetree-core-go/pkg/jws"
)

// ---- the four EC key types as opaque curve identities with their true bit sizes ----

type vCurve struct{ params *elliptic.CurveParams }

func (c *vCurve) Params() *elliptic.CurveParams                      { return c.params }
func (c *vCurve) IsOnCurve(x, y *big.Int) bool                       { panic("curve arithmetic is not modelled") }
func (c *vCurve) Add(x1, y1, x2, y2 *big.Int) (*big.Int, *big.Int)   { panic("curve arithmetic is not modelled") }
func (c *vCurve) Double(x1, y1 *big.Int) (*big.Int, *big.Int)        { panic("curve arithmetic is not modelled") }
func (c *vCurve) ScalarBaseMult(k []byte) (*big.Int, *big.Int)       { panic("curve arithmetic is not modelled") }
func (c *vCurve) ScalarMult(x, y *big.Int, k []byte) (*big.Int, *big.Int) {
	panic("curve arithmetic is not modelled")
}

type vSignWorld struct {
	p256, p384, p521 *vCurve
	s256             *btcec.KoblitzCurve
	bigBytes         map[*big.Int]string // big-endian magnitude of the integers that cross the stubs
	key              *ecdsa.PrivateKey
	signedHash       string
	sigR, sigS       *big.Int
	signCalls        int
	verifyCalls      int
}

var vS *vSignWorld

const vIJWS = "github.com/trustbloc/sidetree-core-go/pkg/internal/jws"

// vSameMagnitude: two big-endian byte strings denote the same integer (the shorter one is padded with
// leading zero bytes; lengths are concrete, so this is one conjunction and no case split).
func vSameMagnitude(a, b string) bool {
	for len(a) < len(b) {
		a = "\x00" + a
	}
	for len(b) < len(a) {
		b = "\x00" + b
	}
	eq := true
	for i := 0; i < len(a); i++ {
		eq = VAnd(eq, a[i] == b[i])
	}
	return eq
}

func vInstallSignStubs() {
	vS = &vSignWorld{bigBytes: map[*big.Int]string{},
		p256: &vCurve{&elliptic.CurveParams{BitSize: 256, Name: "P-256"}},
		p384: &vCurve{&elliptic.CurveParams{BitSize: 384, Name: "P-384"}},
		p521: &vCurve{&elliptic.CurveParams{BitSize: 521, Name: "P-521"}},
		s256: &btcec.KoblitzCurve{CurveParams: &elliptic.CurveParams{BitSize: 256, Name: "secp256k1"}}}
	VStub("crypto/elliptic.P256", func() elliptic.Curve { return vS.p256 })
	VStub("crypto/elliptic.P384", func() elliptic.Curve { return vS.p384 })
	VStub("crypto/elliptic.P521", func() elliptic.Curve { return vS.p521 })
	VStub("github.com/btcsuite/btcd/btcec.S256", func() *btcec.KoblitzCurve { return vS.s256 })

	// ecdsa.Sign: an arbitrary pair (r, s), each an integer of at most ceil(bits/8) bytes whose magnitude
	// has no leading zero byte (it may therefore be SHORTER than the coordinate size); the digest it was
	// given is recorded
	VStub("crypto/ecdsa.Sign", func(rnd io.Reader, priv *ecdsa.PrivateKey, hash []byte) (*big.Int, *big.Int, error) {
		vS.signCalls++
		vS.signedHash = string(hash)
		k := (priv.Curve.Params().BitSize + 7) / 8
		mk := func(name string) *big.Int {
			z := new(big.Int)
			n := k
			switch VNondetRange(name+".len", 0, 3) {
			case 0:
				n = k
			case 1:
				n = k - 1
			case 2:
				n = 1
			default:
				n = 0
			}
			b := make([]byte, n)
			for i := range b {
				b[i] = VNondetU8(name + ".byte")
			}
			if n > 0 {
				VAssume(b[0] != 0)
			}
			vS.bigBytes[z] = string(b)
			return z
		}
		vS.sigR, vS.sigS = mk("sig.r"), mk("sig.s")
		return vS.sigR, vS.sigS, nil
	})
	VStub("(*math/big.Int).Bytes", func(z *big.Int) []byte { return []byte(vS.bigBytes[z]) })
	// FillBytes: the magnitude right-aligned in buf, zero-extended on the left (panics if it does not fit)
	VStub("(*math/big.Int).FillBytes", func(z *big.Int, buf []byte) []byte {
		m := vS.bigBytes[z]
		if len(m) > len(buf) {
			panic("math/big: buffer too small to fit value")
		}
		for i := range buf {
			buf[i] = 0
		}
		copy(buf[len(buf)-len(m):], m)
		return buf
	})
	VStub("(*math/big.Int).SetBytes", func(z *big.Int, b []byte) *big.Int {
		vS.bigBytes[z] = string(b)
		return z
	})
	// the verifier decodes the JWK to the signer's public key (JWK encoding itself: pubkey.GetPublicKeyJWK
	// and go-jose, outside this harness)
	VStub("(*"+vIJWS+".JWK).UnmarshalJSON", func(j *internaljws.JWK, b []byte) error {
		j.JSONWebKey.Key = &vS.key.PublicKey
		return nil
	})
	// ecdsa.Verify: true exactly for the signer's key, the digest that was signed and the integers that
	// were returned by Sign
	VStub("crypto/ecdsa.Verify", func(pub *ecdsa.PublicKey, hash []byte, r, s *big.Int) bool {
		vS.verifyCalls++
		return VAnd(pub == &vS.key.PublicKey, string(hash) == vS.signedHash,
			vSameMagnitude(vS.bigBytes[r], vS.bigBytes[vS.sigR]), vSameMagnitude(vS.bigBytes[s], vS.bigBytes[vS.sigS]))
	})
}

// VHarness_C11_ecsigner_verifier_agree: for each of the four EC key types, what the REAL ecsigner.Sign
// produces for any message and any (r, s) is accepted by the REAL VerifySignature under the signer's
// public key: both sides pick the same digest algorithm and the same fixed-width r||s layout.
func VHarness_C11_ecsigner_verifier_agree() {
	vInstallSignStubs()
	var curve elliptic.Curve
	crv := ""
	switch VNondetRange("keyType", 0, 3) {
	case 0:
		curve, crv = elliptic.P256(), "P-256"
	case 1:
		curve, crv = elliptic.P384(), "P-384"
	case 2:
		curve, crv = elliptic.P521(), "P-521"
	default:
		curve, crv = btcec.S256(), "secp256k1"
	}
	vS.key = &ecdsa.PrivateKey{PublicKey: ecdsa.PublicKey{Curve: curve, X: new(big.Int), Y: new(big.Int)}, D: new(big.Int)}
	signer := New(vS.key, VNondetString("alg"), VNondetString("kid"))
	msg := VNondetBytes("message")
	VAssume(len(msg) <= 64)

	sig, err := signer.Sign(msg) // REAL code
	VAssert("C11/ec-sign-succeeds", VAnd(err == nil, vS.signCalls == 1))
	if err != nil {
		return
	}
	VCover("signed")
	if len(vS.bigBytes[vS.sigR]) < (curve.Params().BitSize+7)/8 {
		VCover("short-r-padded")
	}

	verr := internaljws.VerifySignature(&jws.JWK{Kty: "EC", Crv: crv, X: "x", Y: "y"}, sig, msg) // REAL code
	VAssert("C11/ec-signature-built-by-signer-verifies", VAnd(verr == nil, vS.verifyCalls == 1))
}
