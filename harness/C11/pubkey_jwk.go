package pubkey

import (
	"crypto/ecdsa"
	"crypto/elliptic"
	"encoding/json"
	"math/big"

	"github.com/btcsuite/btcd/btcec"

	internal "github.com/trustbloc/sidetree-core-go/pkg/internal/jws"
)

// VHarness_C11_secp256k1_jwk_roundtrip: the JWK the REAL GetPublicKeyJWK builds for a secp256k1 key is
// accepted by the REAL JWK decoder of the verifier (internal/jws) and decodes to the same point — for every
// coordinate, INCLUDING those whose big-endian magnitude is shorter than 32 bytes (leading zero bytes: about
// one key in 128). JSON is the codec pair with custom (Un)MarshalJSON methods executed for real; base64url is
// a codec pair; big.Int crosses the stubs as its big-endian magnitude; the curve is an opaque identity with
// its true bit size; the on-curve test is an arbitrary predicate consulted with the decoded point.
func VHarness_C11_secp256k1_jwk_roundtrip() {
	mag := map[*big.Int]string{}
	pTok := new(big.Int)
	s256 := &btcec.KoblitzCurve{CurveParams: &elliptic.CurveParams{BitSize: 256, P: pTok, Name: "secp256k1"}}
	VStub("github.com/btcsuite/btcd/btcec.S256", func() *btcec.KoblitzCurve { return s256 })
	VStub("(*math/big.Int).BitLen", func(x *big.Int) int { return 256 })
	VStub("(*math/big.Int).Bytes", func(z *big.Int) []byte { return []byte(mag[z]) })
	VStub("(*math/big.Int).SetBytes", func(z *big.Int, b []byte) *big.Int {
		mag[z] = string(b)
		return z
	})
	var seenX, seenY string
	VStub("(*github.com/btcsuite/btcd/btcec.KoblitzCurve).IsOnCurve", func(_ *btcec.KoblitzCurve, x, y *big.Int) bool {
		seenX, seenY = mag[x], mag[y]
		return true
	})
	coord := func(name string) (*big.Int, string) {
		n := 32
		switch VNondetRange(name+".len", 0, 2) {
		case 1:
			n = 31
		case 2:
			n = 1
		}
		b := make([]byte, n)
		for i := range b {
			b[i] = VNondetU8(name + ".byte")
		}
		VAssume(b[0] != 0) // big.Int.Bytes has no leading zero byte
		z := new(big.Int)
		mag[z] = string(b)
		if n < 32 {
			VCover("short-coordinate")
		}
		return z, string(b)
	}
	x, xb := coord("x")
	y, yb := coord("y")
	pub := &ecdsa.PublicKey{Curve: btcec.S256(), X: x, Y: y}

	jwk, err := GetPublicKeyJWK(pub) // REAL code
	VAssert("C11/secp256k1-jwk-built", VAnd(err == nil, jwk != nil))
	if err != nil || jwk == nil {
		return
	}
	VAssert("C11/secp256k1-jwk-names-the-curve", VAnd(jwk.Kty == "EC", jwk.Crv == "secp256k1"))

	raw, merr := json.Marshal(jwk)
	VAssert("C11/jwk-serialises", merr == nil)
	var dec internal.JWK
	derr := dec.UnmarshalJSON(raw) // REAL decoder used by signature verification
	VAssert("C11/jwk-built-by-the-client-helper-is-accepted-by-the-verifier", derr == nil)
	if derr != nil {
		return
	}
	VCover("round-trip")
	pad := func(s string) string {
		for len(s) < 32 {
			s = "\x00" + s
		}
		return s
	}
	VAssert("C11/decoded-point-is-the-original-point", VAnd(seenX == pad(xb), seenY == pad(yb)))
}
