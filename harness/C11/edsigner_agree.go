package edsigner

import (
	"crypto/ed25519"

	internaljws "github.com/trustbloc/sidetree-core-go/pkg/internal/jws"
	"github.com/trustbloc/sidetree-core-go/pkg/jws"
)

const vIJWS = "github.com/trustbloc/sidetree-core-go/pkg/internal/jws"

type vEdWorld struct {
	pub               string
	signedMsg, sig    string
	signCalls, verify int
}

var vE *vEdWorld

// VHarness_C11_edsigner_verifier_agree: what the REAL edsigner.Sign produces for any message is accepted
// by the REAL VerifySignature under the signer's public key (Ed25519 signs the message itself: no digest,
// no re-encoding on either side); a private key of the wrong size is an error, never a panic.
func VHarness_C11_edsigner_verifier_agree() {
	vE = &vEdWorld{}
	VStub("crypto/ed25519.Sign", func(priv ed25519.PrivateKey, msg []byte) []byte {
		vE.signCalls++
		vE.signedMsg = string(msg)
		sig := make([]byte, ed25519.SignatureSize)
		for i := range sig {
			sig[i] = VNondetU8("sig.byte")
		}
		vE.sig = string(sig)
		return sig
	})
	VStub("(*"+vIJWS+".JWK).UnmarshalJSON", func(j *internaljws.JWK, b []byte) error {
		j.JSONWebKey.Key = ed25519.PublicKey(vE.pub)
		return nil
	})
	VStub("crypto/ed25519.Verify", func(pub ed25519.PublicKey, msg, sig []byte) bool {
		vE.verify++
		return VAnd(string(pub) == vE.pub, string(msg) == vE.signedMsg, string(sig) == vE.sig)
	})

	n := ed25519.PrivateKeySize
	if VNondetBool("wrongKeySize") {
		n = VNondetRange("keySize", 0, 2) * 32 // 0, 32 (a seed or public key passed by mistake), 64 -> skip 64
		if n == ed25519.PrivateKeySize {
			n = 65
		}
	}
	priv := make([]byte, n)
	for i := range priv {
		priv[i] = VNondetU8("priv.byte")
	}
	if n >= 64 {
		vE.pub = string(priv[32:64])
	}
	signer := New(ed25519.PrivateKey(priv), VNondetString("alg"), VNondetString("kid"))
	msg := VNondetBytes("message")
	VAssume(len(msg) <= 64)

	sig, err := signer.Sign(msg) // REAL code
	if n != ed25519.PrivateKeySize {
		VCover("wrong-key-size-refused")
		VAssert("C11/ed-wrong-private-key-size-is-error", VAnd(err != nil, vE.signCalls == 0))
		return
	}
	VAssert("C11/ed-sign-succeeds", VAnd(err == nil, vE.signCalls == 1))
	if err != nil {
		return
	}
	VCover("signed")
	verr := internaljws.VerifySignature(&jws.JWK{Kty: "OKP", Crv: "Ed25519", X: "x"}, sig, msg) // REAL code
	VAssert("C11/ed-signature-built-by-signer-verifies", VAnd(verr == nil, vE.verify == 1))
}
