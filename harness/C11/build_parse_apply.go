package client

import (
	"github.com/trustbloc/sidetree-core-go/pkg/api/operation"
	"github.com/trustbloc/sidetree-core-go/pkg/api/protocol"
	"github.com/trustbloc/sidetree-core-go/pkg/canonicalizer"
	"github.com/trustbloc/sidetree-core-go/pkg/commitment"
	"github.com/trustbloc/sidetree-core-go/pkg/document"
	"github.com/trustbloc/sidetree-core-go/pkg/hashing"
	"github.com/trustbloc/sidetree-core-go/pkg/jws"
	"github.com/trustbloc/sidetree-core-go/pkg/patch"
	"github.com/trustbloc/sidetree-core-go/pkg/versions/1_0/model"
	"github.com/trustbloc/sidetree-core-go/pkg/versions/1_0/operationapplier"
	"github.com/trustbloc/sidetree-core-go/pkg/versions/1_0/operationparser"
)

const vCPkg = "github.com/trustbloc/sidetree-core-go/pkg/"

// vSigner: signatures are an uninterpreted function of (key identity, signed bytes).
type vSigner struct {
	keyID string
	alg   string
	kid   string
	signed []string
}

func (s *vSigner) Sign(data []byte) ([]byte, error) {
	s.signed = append(s.signed, string(data))
	sig := VUFString("signature", s.keyID, string(data))
	VAssume(sig != "") // a signature is never empty
	return []byte(sig), nil
}
func (s *vSigner) Headers() jws.Headers {
	h := jws.Headers{"alg": s.alg}
	if s.kid != "" {
		h["kid"] = s.kid
	}
	return h
}

func vKeyID(k *jws.JWK) string { return VUFString("key.identity", k.Kty, k.Crv, k.X, k.Y) }

// the verification primitive: accepts exactly Sig(pub(k), m) under k
func vInstallVerifyStub() {
	VStub(vCPkg+"internal/jws.VerifySignature", func(k *jws.JWK, sig, msg []byte) error {
		if string(sig) == VUFString("signature", vKeyID(k), string(msg)) {
			return nil
		}
		return VErr("invalid signature")
	})
	VStub(vCPkg+"versions/1_0/operationparser/patchvalidator.Validate", func(p patch.Patch) error { return nil })
}

type vComposer struct{ calls int }

func (c *vComposer) ApplyPatches(doc document.Document, patches []patch.Patch) (document.Document, error) {
	c.calls++
	tok, _ := patches[0]["tok"].(string)
	prev, _ := doc["t"].(string)
	return document.Document{"t": VUFString("applyPatches", prev, tok)}, nil
}

func vProtocol(alg, crv string, code uint) protocol.Protocol {
	return protocol.Protocol{MultihashAlgorithms: []uint{code}, MaxOperationSize: 2000, MaxOperationHashLength: 100, MaxDeltaSize: 1000,
		Patches: []string{"add-also-known-as"}, SignatureAlgorithms: []string{alg}, KeyAlgorithms: []string{crv}, MaxOperationTimeDelta: 600}
}

// VHarness_C11_update: a request built by NewUpdateRequest from symbolic inputs is accepted by the REAL
// parser of a protocol enabling its algorithm, parses back to exactly the inputs, and — anchored inside its
// window on a DID whose update commitment matches the revealed key — the REAL applier advances the update
// commitment and patches the document. JSON/JCS/base64/multihash are codec pairs, hashing and signing are
// uninterpreted functions; the builder, parser and applier code is the real code.
func VHarness_C11_update() {
	vInstallVerifyStub()
	code := uint(18 + VNondetRange("alg", 0, 1))
	key := &jws.JWK{Kty: VNondetString("key.kty"), Crv: VNondetString("key.crv"), X: VNondetString("key.x"), Y: VNondetString("key.y")}
	next := &jws.JWK{Kty: key.Kty, Crv: key.Crv, X: VNondetString("next.x"), Y: key.Y}
	VAssume(VAnd(key.Kty != "", key.Crv != "", key.X != "", next.X != "", next.X != key.X))
	alg := VNondetString("sig.alg")
	VAssume(alg != "")
	signer := &vSigner{keyID: vKeyID(key), alg: alg, kid: VNondetString("sig.kid")}
	reveal, e1 := commitment.GetRevealValue(key, code)
	cur, e2 := commitment.GetCommitment(key, code)
	nextC, e3 := commitment.GetCommitment(next, code)
	VAssert("C11/inputs-computable", e1 == nil && e2 == nil && e3 == nil)
	VAssume(nextC != cur) // no hash collision between the two keys (stated assumption on the uninterpreted hash)
	from, until := VNondetI64("anchorFrom"), VNondetI64("anchorUntil")
	suffix := VNondetString("didSuffix")
	VAssume(VAnd(suffix != "", len(suffix) <= 100))
	ptok := VNondetString("patch.token")
	patches := []patch.Patch{{"action": "add-also-known-as", "tok": ptok}}
	info := &UpdateRequestInfo{DidSuffix: suffix, Patches: patches, UpdateCommitment: nextC, UpdateKey: key, MultihashCode: code,
		Signer: signer, RevealValue: reveal, AnchorFrom: from, AnchorUntil: until}

	req, err := NewUpdateRequest(info) // REAL builder
	if err != nil {
		VLog("build error", err.Error())
	}
	VAssert("C11/update-request-builds", err == nil)
	if err != nil {
		return
	}
	// sizes within the protocol's limits (stated): request and canonical delta
	delta := &model.DeltaModel{UpdateCommitment: nextC, Patches: patches}
	cd, _ := canonicalizer.MarshalCanonical(delta)
	dh, _ := hashing.CalculateModelMultihash(delta, code)
	VAssume(VAnd(len(req) <= 2000, len(cd) <= 1000, len(reveal) <= 100, len(nextC) <= 100, len(dh) <= 100))

	p := vProtocol(alg, key.Crv, code)
	parser := operationparser.New(p)
	op, err := parser.ParseOperation("ns", req, false) // REAL parser, intake mode
	if err != nil {
		VLog("parse error", err.Error())
	}
	VAssert("C11/built-update-accepted-at-intake", err == nil)
	if err != nil {
		return
	}
	VCover("accepted")
	VAssert("C11/parses-back-to-the-inputs", VAnd(op.Type == operation.TypeUpdate, op.UniqueSuffix == suffix, op.RevealValue == reveal,
		op.Delta != nil && op.Delta.UpdateCommitment == nextC))
	sd, err := parser.ParseSignedDataForUpdate(op.SignedData)
	VAssert("C11/signed-data-parses-back", err == nil)
	if err != nil {
		return
	}
	VAssert("C11/signed-window-and-key-as-supplied", VAnd(sd.AnchorFrom == from, sd.AnchorUntil == until, sd.UpdateKey != nil && sd.UpdateKey.X == key.X && sd.UpdateKey.Crv == key.Crv))
	tok, _ := op.Delta.Patches[0]["tok"].(string)
	VAssert("C11/patches-as-supplied", VAnd(len(op.Delta.Patches) == 1, tok == ptok))

	// ---- anchored inside its window on a DID whose update commitment matches the revealed key ----
	anchorTime := VNondetU64("anchor.time")
	lim := int64(1) << 40
	VAssume(VAnd(from > -lim, from < lim, until > -lim, until < lim, anchorTime < uint64(lim)))
	eff := VIteI64(VAnd(from != 0, until == 0), from+600, until)
	VAssume(VOr(VAnd(from == 0, until == 0), VAnd(from <= int64(anchorTime), int64(anchorTime) <= eff)))
	comp := &vComposer{}
	applier := operationapplier.New(p, parser, comp)
	rm := &protocol.ResolutionModel{Doc: document.Document{"t": "doc0"}, UpdateCommitment: cur, RecoveryCommitment: "rc"}
	anchored := &operation.AnchoredOperation{Type: operation.TypeUpdate, UniqueSuffix: suffix, OperationRequest: req, TransactionTime: anchorTime, TransactionNumber: 1}
	res, err := applier.Apply(anchored, rm) // REAL applier (real batch-mode parse, real hashing, real JWS parsing)
	if err != nil {
		VLog("apply error", err.Error())
	}
	VAssert("C11/built-update-applies", err == nil)
	if err != nil {
		return
	}
	VCover("applied")
	dt, _ := res.Doc["t"].(string)
	VAssert("C11/intended-state-change", VAnd(res.UpdateCommitment == nextC, res.RecoveryCommitment == "rc", dt == VUFString("applyPatches", "doc0", ptok), comp.calls == 1))
}

// common symbolic setting for the signed operation types
type vSetting struct {
	code           uint
	key, next      *jws.JWK
	alg            string
	signer         *vSigner
	reveal         string
	cur, nextC     string
	from, until    int64
	suffix         string
	p              protocol.Protocol
	parser         *operationparser.Parser
}

func vNewSetting() *vSetting {
	vInstallVerifyStub()
	s := &vSetting{}
	s.code = uint(18 + VNondetRange("alg", 0, 1))
	s.key = &jws.JWK{Kty: VNondetString("key.kty"), Crv: VNondetString("key.crv"), X: VNondetString("key.x"), Y: VNondetString("key.y")}
	s.next = &jws.JWK{Kty: s.key.Kty, Crv: s.key.Crv, X: VNondetString("next.x"), Y: s.key.Y}
	VAssume(VAnd(s.key.Kty != "", s.key.Crv != "", s.key.X != "", s.next.X != "", s.next.X != s.key.X))
	s.alg = VNondetString("sig.alg")
	VAssume(s.alg != "")
	s.signer = &vSigner{keyID: vKeyID(s.key), alg: s.alg, kid: VNondetString("sig.kid")}
	var e1, e2, e3 error
	s.reveal, e1 = commitment.GetRevealValue(s.key, s.code)
	s.cur, e2 = commitment.GetCommitment(s.key, s.code)
	s.nextC, e3 = commitment.GetCommitment(s.next, s.code)
	VAssert("C11/inputs-computable", e1 == nil && e2 == nil && e3 == nil)
	VAssume(s.nextC != s.cur)
	s.from, s.until = VNondetI64("anchorFrom"), VNondetI64("anchorUntil")
	s.suffix = VNondetString("didSuffix")
	VAssume(VAnd(s.suffix != "", len(s.suffix) <= 100, len(s.reveal) <= 100, len(s.nextC) <= 100, len(s.cur) <= 100))
	s.p = vProtocol(s.alg, s.key.Crv, s.code)
	s.parser = operationparser.New(s.p)
	return s
}

// vInWindowAssumed constrains the anchoring time to the signed window (default until = from + 600)
func (s *vSetting) vAnchorInWindow() uint64 {
	anchorTime := VNondetU64("anchor.time")
	lim := int64(1) << 40
	VAssume(VAnd(s.from > -lim, s.from < lim, s.until > -lim, s.until < lim, anchorTime < uint64(lim)))
	eff := VIteI64(VAnd(s.from != 0, s.until == 0), s.from+600, s.until)
	VAssume(VOr(VAnd(s.from == 0, s.until == 0), VAnd(s.from <= int64(anchorTime), int64(anchorTime) <= eff)))
	return anchorTime
}

// VHarness_C11_deactivate: built deactivate request → accepted → parses back → applied.
func VHarness_C11_deactivate() {
	s := vNewSetting()
	req, err := NewDeactivateRequest(&DeactivateRequestInfo{DidSuffix: s.suffix, RecoveryKey: s.key, Signer: s.signer, RevealValue: s.reveal,
		AnchorFrom: s.from, AnchorUntil: s.until}) // REAL builder
	if err != nil {
		VLog("build error", err.Error())
	}
	VAssert("C11/deactivate-request-builds", err == nil)
	if err != nil {
		return
	}
	VAssume(len(req) <= 2000)
	op, err := s.parser.ParseOperation("ns", req, false) // REAL parser
	if err != nil {
		VLog("parse error", err.Error())
	}
	VAssert("C11/built-deactivate-accepted-at-intake", err == nil)
	if err != nil {
		return
	}
	VCover("accepted")
	VAssert("C11/parses-back-to-the-inputs", VAnd(op.Type == operation.TypeDeactivate, op.UniqueSuffix == s.suffix, op.RevealValue == s.reveal))
	sd, err := s.parser.ParseSignedDataForDeactivate(op.SignedData)
	VAssert("C11/signed-data-parses-back", err == nil)
	if err != nil {
		return
	}
	VAssert("C11/signed-window-key-and-suffix-as-supplied", VAnd(sd.AnchorFrom == s.from, sd.AnchorUntil == s.until, sd.DidSuffix == s.suffix, sd.RecoveryKey != nil && sd.RecoveryKey.X == s.key.X))
	anchorTime := s.vAnchorInWindow()
	applier := operationapplier.New(s.p, s.parser, &vComposer{})
	rm := &protocol.ResolutionModel{Doc: document.Document{"t": "doc0"}, UpdateCommitment: "uc", RecoveryCommitment: s.cur}
	res, err := applier.Apply(&operation.AnchoredOperation{Type: operation.TypeDeactivate, UniqueSuffix: s.suffix, OperationRequest: req, TransactionTime: anchorTime}, rm)
	if err != nil {
		VLog("apply error", err.Error())
	}
	VAssert("C11/built-deactivate-applies", err == nil)
	if err != nil {
		return
	}
	VCover("applied")
	VAssert("C11/intended-state-change", VAnd(res.Deactivated, res.UpdateCommitment == "", res.RecoveryCommitment == "", len(res.Doc) == 0))
}

// VHarness_C11_recover: built recover request → accepted → parses back → applied.
func VHarness_C11_recover() {
	s := vNewSetting()
	// next update key / commitment
	upd := &jws.JWK{Kty: s.key.Kty, Crv: s.key.Crv, X: VNondetString("update.x"), Y: s.key.Y}
	VAssume(VAnd(upd.X != "", upd.X != s.key.X, upd.X != s.next.X))
	updC, e := commitment.GetCommitment(upd, s.code)
	VAssert("C11/inputs-computable", e == nil)
	VAssume(VAnd(updC != s.nextC, updC != s.cur, len(updC) <= 100))
	origin := VNondetString("anchorOrigin")
	ptok := VNondetString("patch.token")
	patches := []patch.Patch{{"action": "add-also-known-as", "tok": ptok}}
	req, err := NewRecoverRequest(&RecoverRequestInfo{DidSuffix: s.suffix, RecoveryKey: s.key, Patches: patches, RecoveryCommitment: s.nextC,
		UpdateCommitment: updC, AnchorOrigin: origin, AnchorFrom: s.from, AnchorUntil: s.until, MultihashCode: s.code, Signer: s.signer, RevealValue: s.reveal}) // REAL builder
	if err != nil {
		VLog("build error", err.Error())
	}
	VAssert("C11/recover-request-builds", err == nil)
	if err != nil {
		return
	}
	delta := &model.DeltaModel{UpdateCommitment: updC, Patches: patches}
	cd, _ := canonicalizer.MarshalCanonical(delta)
	dh, _ := hashing.CalculateModelMultihash(delta, s.code)
	VAssume(VAnd(len(req) <= 2000, len(cd) <= 1000, len(dh) <= 100))
	op, err := s.parser.ParseOperation("ns", req, false) // REAL parser
	if err != nil {
		VLog("parse error", err.Error())
	}
	VAssert("C11/built-recover-accepted-at-intake", err == nil)
	if err != nil {
		return
	}
	VCover("accepted")
	o, _ := op.AnchorOrigin.(string)
	VAssert("C11/parses-back-to-the-inputs", VAnd(op.Type == operation.TypeRecover, op.UniqueSuffix == s.suffix, op.RevealValue == s.reveal,
		op.Delta != nil && op.Delta.UpdateCommitment == updC, o == origin))
	sd, err := s.parser.ParseSignedDataForRecover(op.SignedData)
	VAssert("C11/signed-data-parses-back", err == nil)
	if err != nil {
		return
	}
	VAssert("C11/signed-fields-as-supplied", VAnd(sd.AnchorFrom == s.from, sd.AnchorUntil == s.until, sd.RecoveryCommitment == s.nextC, sd.DeltaHash == dh))
	anchorTime := s.vAnchorInWindow()
	comp := &vComposer{}
	applier := operationapplier.New(s.p, s.parser, comp)
	rm := &protocol.ResolutionModel{Doc: document.Document{"t": "doc0"}, UpdateCommitment: "uc", RecoveryCommitment: s.cur}
	res, err := applier.Apply(&operation.AnchoredOperation{Type: operation.TypeRecover, UniqueSuffix: s.suffix, OperationRequest: req, TransactionTime: anchorTime}, rm)
	if err != nil {
		VLog("apply error", err.Error())
	}
	VAssert("C11/built-recover-applies", err == nil)
	if err != nil {
		return
	}
	VCover("applied")
	dt, _ := res.Doc["t"].(string)
	ro, _ := res.AnchorOrigin.(string)
	VAssert("C11/intended-state-change", VAnd(res.RecoveryCommitment == s.nextC, res.UpdateCommitment == updC, dt == VUFString("applyPatches", "", ptok), ro == origin, !res.Deactivated))
}

// VHarness_C11_create: built create request → accepted → parses back (suffix = hash of suffix data) → applied.
func VHarness_C11_create() {
	vInstallVerifyStub()
	code := uint(18 + VNondetRange("alg", 0, 1))
	k1 := &jws.JWK{Kty: "EC", Crv: "P-256", X: VNondetString("recovery.x")}
	k2 := &jws.JWK{Kty: "EC", Crv: "P-256", X: VNondetString("update.x")}
	VAssume(VAnd(k1.X != "", k2.X != "", k1.X != k2.X))
	rc, e1 := commitment.GetCommitment(k1, code)
	uc, e2 := commitment.GetCommitment(k2, code)
	VAssert("C11/inputs-computable", e1 == nil && e2 == nil)
	VAssume(VAnd(rc != uc, len(rc) <= 100, len(uc) <= 100))
	origin := VNondetString("anchorOrigin")
	ptok := VNondetString("patch.token")
	patches := []patch.Patch{{"action": "add-also-known-as", "tok": ptok}}
	req, err := NewCreateRequest(&CreateRequestInfo{Patches: patches, RecoveryCommitment: rc, UpdateCommitment: uc, AnchorOrigin: origin, MultihashCode: code}) // REAL builder
	if err != nil {
		VLog("build error", err.Error())
	}
	VAssert("C11/create-request-builds", err == nil)
	if err != nil {
		return
	}
	delta := &model.DeltaModel{UpdateCommitment: uc, Patches: patches}
	cd, _ := canonicalizer.MarshalCanonical(delta)
	dh, _ := hashing.CalculateModelMultihash(delta, code)
	VAssume(VAnd(len(req) <= 2000, len(cd) <= 1000, len(dh) <= 100))
	p := vProtocol("alg", "P-256", code)
	parser := operationparser.New(p)
	op, err := parser.ParseOperation("ns", req, false) // REAL parser
	if err != nil {
		VLog("parse error", err.Error())
	}
	VAssert("C11/built-create-accepted-at-intake", err == nil)
	if err != nil {
		return
	}
	VCover("accepted")
	want, e3 := model.GetUniqueSuffix(&model.SuffixDataModel{DeltaHash: dh, RecoveryCommitment: rc, AnchorOrigin: origin}, []uint{code})
	o, _ := op.AnchorOrigin.(string)
	VAssert("C11/parses-back-to-the-inputs", VAnd(op.Type == operation.TypeCreate, e3 == nil, op.UniqueSuffix == want, o == origin,
		op.SuffixData != nil && op.SuffixData.RecoveryCommitment == rc && op.SuffixData.DeltaHash == dh, op.Delta != nil && op.Delta.UpdateCommitment == uc))
	comp := &vComposer{}
	applier := operationapplier.New(p, parser, comp)
	res, err := applier.Apply(&operation.AnchoredOperation{Type: operation.TypeCreate, UniqueSuffix: op.UniqueSuffix, OperationRequest: req, TransactionTime: 7}, &protocol.ResolutionModel{})
	VAssert("C11/built-create-applies", err == nil)
	if err != nil {
		return
	}
	VCover("applied")
	dt, _ := res.Doc["t"].(string)
	VAssert("C11/intended-state-change", VAnd(res.RecoveryCommitment == rc, res.UpdateCommitment == uc, dt == VUFString("applyPatches", "", ptok), res.CreatedTime == 7))
}
