package operationparser

import (
	"github.com/trustbloc/sidetree-core-go/pkg/api/protocol"
	"github.com/trustbloc/sidetree-core-go/pkg/versions/1_0/model"
)

// VHarness_C14_parser_entry_points_no_panic: the transaction provider hands values decoded from CAS files
// straight to these five REAL parser entry points (ValidateSuffixData, ValidateDelta,
// ParseSignedDataFor{Update,Recover,Deactivate}); for an arbitrary decoded value - nil included - each
// returns an error or a result and never panics (every implicit panic of the executed code is an
// obligation), and a missing suffix data / delta is refused.
func VHarness_C14_parser_entry_points_no_panic() {
	var p protocol.Protocol
	vHavocProtocol(&p, 1)
	vInstallIntakeStubs()
	VHavocBounds(VBound("L", 1), 2, 2)
	parser := New(p)
	switch VNondetRange("entry", 0, 4) {
	case 0:
		var sd *model.SuffixDataModel
		VHavoc("suffixData", &sd)
		err := parser.ValidateSuffixData(sd) // REAL code
		if sd == nil {
			VCover("nil-suffix-data")
			VAssert("C14/missing-suffix-data-refused", err != nil)
		}
	case 1:
		var d *model.DeltaModel
		VHavoc("delta", &d)
		err := parser.ValidateDelta(d) // REAL code
		if d == nil {
			VCover("nil-delta")
			VAssert("C14/missing-delta-refused", err != nil)
		}
	case 2:
		_, _ = parser.ParseSignedDataForUpdate(VNondetString("signedData")) // REAL code
		VCover("signed-data-update")
	case 3:
		_, _ = parser.ParseSignedDataForRecover(VNondetString("signedData")) // REAL code
		VCover("signed-data-recover")
	default:
		_, _ = parser.ParseSignedDataForDeactivate(VNondetString("signedData")) // REAL code
		VCover("signed-data-deactivate")
	}
}
