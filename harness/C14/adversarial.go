package txnprovider

import (
	"strings"

	"github.com/trustbloc/sidetree-core-go/pkg/api/operation"
	"github.com/trustbloc/sidetree-core-go/pkg/api/protocol"
	"github.com/trustbloc/sidetree-core-go/pkg/api/txn"
	"github.com/trustbloc/sidetree-core-go/pkg/versions/1_0/model"
	"github.com/trustbloc/sidetree-core-go/pkg/versions/1_0/txnprovider/models"
)

const vModPkg = "github.com/trustbloc/sidetree-core-go/pkg/"

// ---- adversarial environment: CAS, decompressor and parser outcomes are all symbolic ----

type vRead struct {
	uri   string
	size  uint64 // length of the bytes returned
	fail  bool
}

type vAdv struct {
	reads       []vRead
	decompIn    []uint64
	decompOut   []uint64
	deltaOK     map[*model.DeltaModel]bool
	signedOK    map[string]bool
	suffixOK    map[*model.SuffixDataModel]bool
	validatedD  []*model.DeltaModel
	parsedR     []string
	parsedD     []string
	parsedU     []string
}

var vA *vAdv

type vCAS struct{}

func (vCAS) Read(uri string) ([]byte, error) {
	if VNondetBool("cas.fails") {
		vA.reads = append(vA.reads, vRead{uri: uri, fail: true})
		return nil, VErr("content not found")
	}
	b := VNondetBytes("cas.content")
	vA.reads = append(vA.reads, vRead{uri: uri, size: uint64(len(b))})
	return b, nil
}

type vDecomp struct{}

func (vDecomp) Decompress(alg string, data []byte) ([]byte, error) {
	if VNondetBool("decompress.fails") {
		return nil, VErr("not compressed")
	}
	out := VNondetBytes("decompressed")
	vA.decompIn = append(vA.decompIn, uint64(len(data)))
	vA.decompOut = append(vA.decompOut, uint64(len(out)))
	return out, nil
}

type vAdvParser struct{}

func (vAdvParser) ParseOperation(string, []byte, bool) (*model.Operation, error) {
	return nil, VErr("unused by the reader")
}
func (vAdvParser) ValidateSuffixData(sd *model.SuffixDataModel) error {
	if sd == nil {
		return VErr("missing suffix data")
	}
	ok, seen := vA.suffixOK[sd]
	if !seen {
		ok = VNondetBool("suffixData.valid")
		vA.suffixOK[sd] = ok
	}
	if !ok {
		return VErr("invalid suffix data")
	}
	return nil
}
func (vAdvParser) ValidateDelta(d *model.DeltaModel) error {
	if d == nil {
		return VErr("missing delta")
	}
	ok, seen := vA.deltaOK[d]
	if !seen {
		ok = VNondetBool("delta.valid")
		vA.deltaOK[d] = ok
	}
	vA.validatedD = append(vA.validatedD, d)
	if !ok {
		return VErr("invalid delta")
	}
	return nil
}
func vSignedOK(s string) bool {
	return VUFBool("signedData.parses", s)
}
func (vAdvParser) ParseSignedDataForUpdate(s string) (*model.UpdateSignedDataModel, error) {
	if !vSignedOK(s) {
		return nil, VErr("bad signed data")
	}
	vA.parsedU = append(vA.parsedU, s)
	return &model.UpdateSignedDataModel{}, nil
}
func (vAdvParser) ParseSignedDataForDeactivate(s string) (*model.DeactivateSignedDataModel, error) {
	if !vSignedOK(s) {
		return nil, VErr("bad signed data")
	}
	vA.parsedD = append(vA.parsedD, s)
	return &model.DeactivateSignedDataModel{}, nil
}
func (vAdvParser) ParseSignedDataForRecover(s string) (*model.RecoverSignedDataModel, error) {
	if !vSignedOK(s) {
		return nil, VErr("bad signed data")
	}
	vA.parsedR = append(vA.parsedR, s)
	return &model.RecoverSignedDataModel{AnchorOrigin: "origin"}, nil
}

func vAdvProtocol() protocol.Protocol {
	return protocol.Protocol{
		MaxOperationHashLength: VNondetUint("p.MaxOperationHashLength"), MaxCasURILength: VNondetUint("p.MaxCasURILength"),
		CompressionAlgorithm: "GZIP", MaxCoreIndexFileSize: VNondetUint("p.MaxCoreIndexFileSize"), MaxProofFileSize: VNondetUint("p.MaxProofFileSize"),
		MaxProvisionalIndexFileSize: VNondetUint("p.MaxProvisionalIndexFileSize"), MaxChunkFileSize: VNondetUint("p.MaxChunkFileSize"),
		MaxMemoryDecompressionFactor: VNondetUint("p.MaxMemoryDecompressionFactor"), MultihashAlgorithms: []uint{18},
	}
}

func vInstallSuffixStub() {
	VStub(vModPkg+"versions/1_0/model.GetUniqueSuffix", func(sd *model.SuffixDataModel, algs []uint) (string, error) {
		if len(algs) == 0 {
			return "", VErr("algorithm not provided")
		}
		return VUFString("uniqueSuffix", sd.DeltaHash, sd.RecoveryCommitment, sd.Type), nil
	})
}

// VHarness_C14_adversarial: the REAL GetTxnOperations against arbitrary CAS content: every file is
// an opaque blob of symbolic length (or a read error, with alternate sources), decompression returns a
// blob of symbolic length (or fails), the five file parsers return an arbitrary value of their Go type
// (typed havoc, lists 0..L), parser predicates are symbolic.
func VHarness_C14_adversarial() {
	L := VBound("L", 2)
	VHavocBounds(L, 2, 2)
	vA = &vAdv{deltaOK: map[*model.DeltaModel]bool{}, suffixOK: map[*model.SuffixDataModel]bool{}}
	vInstallSuffixStub()
	vInstallFileParsers()
	p := vAdvProtocol()
	var opts []Opt
	var alts []string
	h := NewOperationProvider(p, vAdvParser{}, vCAS{}, vDecomp{}, opts...)
	// reading one file (size limits, decompression, alternate sources) is decided on its own in
	// VHarness_C14_read_from_cas; here it yields an arbitrary blob or an error and logs the limit it was given
	var limits []uint
	var uris []string
	VStub("(*"+vModPkg+"versions/1_0/txnprovider.OperationProvider).readFromCAS", func(_ *OperationProvider, uri string, maxSize uint, _ ...string) ([]byte, error) {
		if VNondetBool("read.fails") {
			return nil, VErr("retrieve CAS content failed")
		}
		limits = append(limits, maxSize)
		uris = append(uris, uri)
		return VNondetBytes("file.content"), nil
	})
	// the anchor string itself is decided in VHarness_C14_anchor_string; here its parse result is arbitrary
	anchor := VNondetString("anchorString")
	adCount, adURI, adFails := VNondetInt("anchor.count"), VNondetString("anchor.uri"), VNondetBool("anchor.invalid")
	VAssume(adCount >= 1)
	VStub(vModPkg+"versions/1_0/txnprovider.ParseAnchorData", func(data string) (*AnchorData, error) {
		if adFails {
			return nil, VErr("parse anchor data failed")
		}
		return &AnchorData{NumberOfOperations: adCount, CoreIndexFileURI: adURI}, nil
	})
	tx := &txn.SidetreeTxn{AnchorString: anchor, Namespace: "ns", AlternateSources: alts}

	ops, err := h.GetTxnOperations(tx) // REAL code; any panic is reported by the engine

	if err != nil {
		VCover("rejected")
		return
	}
	VCover("accepted")
	VAssert("C14/anchor-string-parses", !adFails)
	VAssert("C14/count-equals-anchor-count", len(ops) == adCount)
	for i := range ops {
		for j := 0; j < i; j++ {
			VAssert("C14/suffixes-pairwise-distinct", ops[i].UniqueSuffix != ops[j].UniqueSuffix)
		}
	}
	// every file was read under the size limit of its own type
	kinds := vFileKinds()
	VAssert("C14/one-parse-per-read", len(kinds) == len(limits))
	for i, k := range kinds {
		if i < len(limits) {
			VAssert("C14/file-read-under-own-size-limit", limits[i] == vMaxFor(p, k))
		}
	}
	VAssert("C14/core-index-read-from-anchor-uri", len(uris) > 0 && uris[0] == adURI)
	// deltas and signed data in the result were validated / parsed
	nDelta := 0
	for _, o := range ops {
		if o.Type != operation.TypeDeactivate {
			nDelta++
		}
	}
	okDeltas := 0
	for _, d := range vA.validatedD {
		if vA.deltaOK[d] {
			okDeltas++
		}
	}
	VAssert("C14/every-delta-validated", okDeltas >= nDelta)
	nR, nD, nU, nC := 0, 0, 0, 0
	for _, o := range ops {
		switch o.Type {
		case operation.TypeRecover:
			nR++
		case operation.TypeDeactivate:
			nD++
		case operation.TypeUpdate:
			nU++
		default:
			nC++
		}
	}
	VAssert("C14/signed-data-parsed-for-every-recover", len(vA.parsedR) >= nR)
	VAssert("C14/signed-data-parsed-for-every-deactivate", len(vA.parsedD) >= nD)
	VAssert("C14/signed-data-parsed-for-every-update", len(vA.parsedU) >= nU)
	// followed CAS references are within the maximum URI length
	mu := uint64(p.MaxCasURILength)
	if vF.cpf != nil {
		VAssert("C14/followed-uri-within-max-length", uint64(len(vF.cif.CoreProofFileURI)) <= mu)
	}
	if vF.pif != nil {
		VAssert("C14/followed-uri-within-max-length", uint64(len(vF.cif.ProvisionalIndexFileURI)) <= mu)
	}
	if vF.ppf != nil {
		VAssert("C14/followed-uri-within-max-length", uint64(len(vF.pif.ProvisionalProofFileURI)) <= mu)
	}
	if vF.chf != nil {
		VAssert("C14/followed-uri-within-max-length", uint64(len(vF.pif.Chunks[0].ChunkFileURI)) <= mu)
	}
	// a core index that lists creates or recovers needs a chunk file for their deltas
	if vF.cif.Operations != nil && len(vF.cif.Operations.Create)+len(vF.cif.Operations.Recover) > 0 {
		VAssert("C14/missing-chunk-reference-rejected", vF.pif != nil && vF.chf != nil)
	}
	// reference structure
	hasProof, hasProv, hasPProof := false, false, false
	for _, k := range kinds {
		switch k {
		case 1:
			hasProof = true
		case 2:
			hasProv = true
		case 3:
			hasPProof = true
		}
	}
	VAssert("C14/core-proof-referenced-iff-recover-or-deactivate", hasProof == (nR+nD > 0))
	VAssert("C14/provisional-proof-referenced-iff-updates", VImplies(hasProv, hasPProof == (nU > 0)))
	VAssert("C14/chunk-referenced-when-deltas-needed", VImplies(nC+nR+nU > 0, hasProv))
	if nC > 0 {
		VCover("with-create")
	}
	if nU > 0 {
		VCover("with-update")
	}
	if nD > 0 && !hasProv {
		VCover("deactivate-only")
	}
}

var vKinds []int

type vFiles struct {
	cif *models.CoreIndexFile
	cpf *models.CoreProofFile
	pif *models.ProvisionalIndexFile
	ppf *models.ProvisionalProofFile
	chf *models.ChunkFile
}

var vF *vFiles

// vInstallFileParsers replaces the five JSON file parsers by typed havoc (an arbitrary value of the
// file's Go type, or an error) and records which file kinds were parsed, in order.
func vInstallFileParsers() {
	vKinds = nil
	vF = &vFiles{}
	m := vModPkg + "versions/1_0/txnprovider/models."
	VStub(m+"ParseCoreIndexFile", func(content []byte) (*models.CoreIndexFile, error) {
		vKinds = append(vKinds, 0)
		if VNondetBool("parse.fails") {
			return nil, VErr("invalid JSON")
		}
		f := &models.CoreIndexFile{}
		VHavoc("cif", f)
		vF.cif = f
		return f, nil
	})
	VStub(m+"ParseCoreProofFile", func(content []byte) (*models.CoreProofFile, error) {
		vKinds = append(vKinds, 1)
		if VNondetBool("parse.fails") {
			return nil, VErr("invalid JSON")
		}
		f := &models.CoreProofFile{}
		VHavoc("cpf", f)
		vF.cpf = f
		return f, nil
	})
	VStub(m+"ParseProvisionalIndexFile", func(content []byte) (*models.ProvisionalIndexFile, error) {
		vKinds = append(vKinds, 2)
		if VNondetBool("parse.fails") {
			return nil, VErr("invalid JSON")
		}
		f := &models.ProvisionalIndexFile{}
		VHavoc("pif", f)
		vF.pif = f
		return f, nil
	})
	VStub(m+"ParseProvisionalProofFile", func(content []byte) (*models.ProvisionalProofFile, error) {
		vKinds = append(vKinds, 3)
		if VNondetBool("parse.fails") {
			return nil, VErr("invalid JSON")
		}
		f := &models.ProvisionalProofFile{}
		VHavoc("ppf", f)
		vF.ppf = f
		return f, nil
	})
	VStub(m+"ParseChunkFile", func(content []byte) (*models.ChunkFile, error) {
		vKinds = append(vKinds, 4)
		if VNondetBool("parse.fails") {
			return nil, VErr("invalid JSON")
		}
		f := &models.ChunkFile{}
		VHavoc("chunk", f)
		vF.chf = f
		return f, nil
	})
}

func vFileKinds() []int { return vKinds }

func vMaxFor(p protocol.Protocol, kind int) uint {
	switch kind {
	case 0:
		return p.MaxCoreIndexFileSize
	case 1, 3:
		return p.MaxProofFileSize
	case 2:
		return p.MaxProvisionalIndexFileSize
	}
	return p.MaxChunkFileSize
}

// VHarness_C14_anchor_string: ParseAnchorData on "<a>.<b>" with a, b arbitrary dot-free strings
// (shape 1), on a dot-free string (shape 0) and on a string with two dots (shape 2): accepted iff shape 1
// and a is a positive decimal without leading zero; the count is that number and the URI is b.
func VHarness_C14_anchor_string() {
	a, b, c := VNondetString("a"), VNondetString("b"), VNondetString("c")
	VAssume(VAnd(!vHasDot(a), !vHasDot(b), !vHasDot(c)))
	VAssume(len(a) <= VBound("DIGITS", 3)) // stated bound on the length of the count
	var s string
	shape := VNondetRange("dots", 0, 2)
	switch shape {
	case 0:
		s = a
	case 1:
		s = a + "." + b
	default:
		s = a + "." + b + "." + c
	}
	ad, err := ParseAnchorData(s)
	if shape != 1 {
		VAssert("C14/anchor-needs-exactly-two-parts", err != nil)
		return
	}
	if err != nil {
		VCover("rejected")
		return
	}
	VCover("accepted")
	VAssert("C14/anchor-count-positive", ad.NumberOfOperations >= 1)
	VAssert("C14/anchor-uri-is-second-part", ad.CoreIndexFileURI == b)
	VAssert("C14/anchor-string-roundtrips", ad.GetAnchorString() == s)
}

func vHasDot(s string) bool { return strings.Contains(s, ".") }


// VHarness_C14_read_from_cas: reading ONE file: the returned content came from CAS (or, after a
// failed read, from one of the alternate sources in order), is no larger than maxSize and decompresses
// to no more than maxSize * factor; everything else is an error. All sizes symbolic.
func VHarness_C14_read_from_cas() {
	vA = &vAdv{}
	p := vAdvProtocol()
	maxSize := VNondetUint("maxSize")
	VAssume(VAnd(maxSize < uint(1)<<24, p.MaxMemoryDecompressionFactor < 256)) // no uint wrap in maxSize*factor
	nalt := VNondetRange("alternateSources", 0, VBound("ALT", 2))
	var alts []string
	for i := 0; i < nalt; i++ {
		alts = append(alts, VNondetString("altSource"))
	}
	h := NewOperationProvider(p, vAdvParser{}, vCAS{}, vDecomp{}, WithSourceCASURIFormatter(func(u, s string) (string, error) { return s + ":" + u, nil }))
	uri := VNondetString("uri")
	content, err := h.readFromCAS(uri, maxSize, alts...)
	if err != nil {
		VCover("rejected")
		return
	}
	VCover("accepted")
	// exactly one successful read, and it is the last one
	okReads := 0
	for _, r := range vA.reads {
		if !r.fail {
			okReads++
		}
	}
	last := vA.reads[len(vA.reads)-1]
	VAssert("C14/content-from-one-successful-read", VAnd(okReads == 1, !last.fail))
	VAssert("C14/primary-uri-tried-first", vA.reads[0].uri == uri)
	if len(vA.reads) > 1 {
		VCover("alternate-source-used")
		VAssert("C14/alternates-tried-in-order", last.uri == alts[len(vA.reads)-2]+":"+uri)
	}
	VAssert("C14/file-size-within-limit", last.size <= uint64(maxSize))
	VAssert("C14/decompressed-once", len(vA.decompOut) == 1)
	VAssert("C14/decompressor-got-what-was-read", vA.decompIn[0] == last.size)
	VAssert("C14/decompressed-size-within-limit-times-factor", vA.decompOut[0] <= uint64(maxSize)*uint64(p.MaxMemoryDecompressionFactor))
	VAssert("C14/returns-decompressed-content", uint64(len(content)) == vA.decompOut[0])
}
