package processor

import (
	"sort"

	"github.com/trustbloc/sidetree-core-go/pkg/api/operation"
	"github.com/trustbloc/sidetree-core-go/pkg/api/protocol"
)

func vLexLess(t1, n1, t2, n2 uint64) bool {
	return VOr(t1 < t2, VAnd(t1 == t2, n1 < n2))
}

func vSymOps(n int) []*operation.AnchoredOperation {
	ops := make([]*operation.AnchoredOperation, n)
	for i := range ops {
		ops[i] = &operation.AnchoredOperation{
			TransactionTime:   VNondetU64("time"),
			TransactionNumber: VNondetU64("number"),
			UniqueSuffix:      "s",
		}
	}
	return ops
}

// VHarness_C02_sort_lex: sortOperations returns a permutation that is non-decreasing in the
// lexicographic (time, number) order, for every 64-bit coordinate assignment of n operations.
func VHarness_C02_sort_lex() {
	n := VNondetRange("n", 0, VBound("N", 3))
	ops := vSymOps(n)
	orig := make([]*operation.AnchoredOperation, n)
	copy(orig, ops)
	sortOperations(ops)
	VCover("sorted")
	// permutation: every original pointer occurs exactly once
	for _, o := range orig {
		cnt := 0
		for _, p := range ops {
			if p == o {
				cnt++
			}
		}
		VAssert("C02/sort-is-permutation", cnt == 1)
	}
	for i := 0; i+1 < n; i++ {
		a, b := ops[i], ops[i+1]
		VAssert("C02/sort-lex-nondecreasing", !vLexLess(b.TransactionTime, b.TransactionNumber, a.TransactionTime, a.TransactionNumber))
	}
}

// VHarness_C02_less_swo: the comparator handed to sort.Slice is exactly the strict lexicographic
// order on (time, number) — hence irreflexive, asymmetric and transitive — for all 64-bit values.
func VHarness_C02_less_swo() {
	ops := vSymOps(3)
	var less func(i, j int) bool
	VStub("sort.Slice", func(x interface{}, l func(i, j int) bool) { less = l })
	sortOperations(ops)
	VUnstub("sort.Slice")
	if less == nil {
		VSkip("sortOperations does not sort through sort.Slice on this tree: the comparator cannot be captured (VHarness_C02_sort_lex decides the ordering of its output all the same)")
		return
	}
	VCover("captured")
	a, b, c := ops[0], ops[1], ops[2]
	lab, lba := less(0, 1), less(1, 0)
	lbc, lac := less(1, 2), less(0, 2)
	VAssert("C02/less-is-lexicographic", lab == vLexLess(a.TransactionTime, a.TransactionNumber, b.TransactionTime, b.TransactionNumber))
	VAssert("C02/less-irreflexive", !less(0, 0))
	VAssert("C02/less-asymmetric", !VAnd(lab, lba))
	VAssert("C02/less-transitive", VImplies(VAnd(lab, lbc), lac))
	_ = c
}

// VHarness_C02_create_order: the stable sort of create operations in Resolve puts published ones
// first and keeps anchoring order inside each group. The comparator is captured from the real
// Resolve by running it on a store that returns n creates, and applied through the real
// sort.SliceStable.
func VHarness_C02_create_order() {
	n := VNondetRange("n", 1, VBound("N", 3))
	creates := make([]*operation.AnchoredOperation, n)
	pub := make([]bool, n)
	for i := range creates {
		pub[i] = VNondetBool("published")
		ref := ""
		if pub[i] {
			ref = VNondetString("ref")
			VAssume(ref != "")
		}
		creates[i] = &operation.AnchoredOperation{Type: operation.TypeCreate, UniqueSuffix: "s", CanonicalReference: ref,
			TransactionTime: uint64(i + 1), TransactionNumber: 0}
	}
	var sorted []*operation.AnchoredOperation
	VStub("sort.SliceStable", func(x interface{}, l func(i, j int) bool) {
		VUnstub("sort.SliceStable")
		sort.SliceStable(x, l)
		sorted = append([]*operation.AnchoredOperation(nil), x.([]*operation.AnchoredOperation)...)
	})
	p := New("v", &vStore{ops: creates}, &vNoProtocol{})
	_, _ = p.Resolve("s")
	if sorted == nil {
		VSkip("Resolve does not order the create operations through sort.SliceStable on this tree (the order in which creates are tried is decided through the real Resolve by VHarness_C04_full_ops here, and by C01's duplicate-create relation and C03's reference resolver)")
		return
	}
	VCover("sorted")
	VAssert("C02/create-sort-len", len(sorted) == n)
	// expected: published in original order, then unpublished in original order
	var want []*operation.AnchoredOperation
	for i, c := range creates {
		if pub[i] {
			want = append(want, c)
		}
	}
	for i, c := range creates {
		if !pub[i] {
			want = append(want, c)
		}
	}
	for i := range want {
		if i < len(sorted) {
			VAssert("C02/create-order-published-first-stable", sorted[i] == want[i])
		}
	}
}

type vStore struct {
	ops []*operation.AnchoredOperation
}

func (s *vStore) Get(string) ([]*operation.AnchoredOperation, error) {
	return append([]*operation.AnchoredOperation(nil), s.ops...), nil
}

// vNoProtocol: a protocol client without any version (every operation fails to apply).
type vNoProtocol struct{}

func (*vNoProtocol) Current() (protocol.Version, error)   { return nil, VErr("no protocol") }
func (*vNoProtocol) Get(uint64) (protocol.Version, error) { return nil, VErr("no protocol") }
