package metadata

import (
	"github.com/trustbloc/sidetree-core-go/pkg/api/operation"
)

// The metadata transformer has its own copy of sortOperations (used to order the published
// operations it reports): the same two lemmas as for the processor's copy.

func vLexLess(t1, n1, t2, n2 uint64) bool {
	return VOr(t1 < t2, VAnd(t1 == t2, n1 < n2))
}

func vSymOps(n int) []*operation.AnchoredOperation {
	ops := make([]*operation.AnchoredOperation, n)
	for i := range ops {
		ops[i] = &operation.AnchoredOperation{
			TransactionTime:   VNondetU64("time"),
			TransactionNumber: VNondetU64("number"),
			UniqueSuffix:      "s",
		}
	}
	return ops
}

// VHarness_C02_metadata_sort_lex: sortOperations returns a permutation that is non-decreasing in the
// lexicographic (time, number) order, for every 64-bit coordinate assignment of n operations.
func VHarness_C02_metadata_sort_lex() {
	n := VNondetRange("n", 0, VBound("N", 3))
	ops := vSymOps(n)
	orig := make([]*operation.AnchoredOperation, n)
	copy(orig, ops)
	sortOperations(ops)
	VCover("sorted")
	// permutation: every original pointer occurs exactly once
	for _, o := range orig {
		cnt := 0
		for _, p := range ops {
			if p == o {
				cnt++
			}
		}
		VAssert("C02/sort-is-permutation", cnt == 1)
	}
	for i := 0; i+1 < n; i++ {
		a, b := ops[i], ops[i+1]
		VAssert("C02/sort-lex-nondecreasing", !vLexLess(b.TransactionTime, b.TransactionNumber, a.TransactionTime, a.TransactionNumber))
	}
}

// VHarness_C02_metadata_less_swo: the comparator handed to sort.Slice is exactly the strict lexicographic
// order on (time, number) — hence irreflexive, asymmetric and transitive — for all 64-bit values.
func VHarness_C02_metadata_less_swo() {
	ops := vSymOps(3)
	var less func(i, j int) bool
	VStub("sort.Slice", func(x interface{}, l func(i, j int) bool) { less = l })
	sortOperations(ops)
	VUnstub("sort.Slice")
	if less == nil {
		VSkip("the metadata operation lists are not sorted through sort.Slice on this tree: the comparator cannot be captured (VHarness_C02_metadata_sort_lex decides the ordering of the output all the same)")
		return
	}
	VCover("captured")
	a, b, c := ops[0], ops[1], ops[2]
	lab, lba := less(0, 1), less(1, 0)
	lbc, lac := less(1, 2), less(0, 2)
	VAssert("C02/less-is-lexicographic", lab == vLexLess(a.TransactionTime, a.TransactionNumber, b.TransactionTime, b.TransactionNumber))
	VAssert("C02/less-irreflexive", !less(0, 0))
	VAssert("C02/less-asymmetric", !VAnd(lab, lba))
	VAssert("C02/less-transitive", VImplies(VAnd(lab, lbc), lac))
	_ = c
}

