package processor

import (
	"github.com/trustbloc/sidetree-core-go/pkg/api/operation"
	"github.com/trustbloc/sidetree-core-go/pkg/api/protocol"
	"github.com/trustbloc/sidetree-core-go/pkg/document"
)

// VHarness_C02_published_precedence: "anchored (published) operations always take precedence over
// unpublished ones". The real Resolve runs over a published store AND an unpublished store; every
// operation after the (published) create is published or unpublished by case split. Published operations
// are anchored at distinct times 10+i with arbitrary transaction numbers; an unpublished operation carries
// an ARBITRARY 64-bit (time, number) pair — earlier than every published one included — distinct from the
// other operations' times. The result must equal the reference resolver (DESIGN.md B.2) run over
// "published in anchoring order ++ unpublished in time order": a published operation consuming a
// commitment wins over an unpublished one consuming the same commitment whatever their times say.
func VHarness_C02_published_precedence() {
	n := VBound("N", 3)
	vWorldSetup(n, true)
	var pub, unpub, all []*operation.AnchoredOperation
	nUnpub := 0
	for i, r := range vW.recs {
		published := true
		if i > 0 {
			published = VNondetBool("published")
		}
		var op *operation.AnchoredOperation
		if published {
			op = vAnchored(i, r, uint64(10+i), VNondetU64("txn.number"), true)
			pub = append(pub, op)
		} else {
			t := VNondetU64("unpublished.time")
			VAssume(t < 10 || t >= uint64(10+n))
			for _, o := range unpub {
				VAssume(o.TransactionTime != t)
			}
			op = vAnchored(i, r, t, VNondetU64("unpublished.number"), false)
			unpub = append(unpub, op)
			nUnpub++
		}
		all = append(all, op)
	}
	if nUnpub == 0 {
		return // covered by VHarness_C04_full_ops
	}
	VCover("with-unpublished")
	// the stores return their content in anchoring order or reversed
	rev := func(in []*operation.AnchoredOperation) []*operation.AnchoredOperation {
		var out []*operation.AnchoredOperation
		for i := len(in) - 1; i >= 0; i-- {
			out = append(out, in[i])
		}
		return out
	}
	ps, us := pub, unpub
	if VNondetBool("storesReversed") {
		ps, us = rev(pub), rev(unpub)
	}
	// VIAOPTS=1: the unpublished operations reach Resolve through the unpublished store OR through the
	// WithAdditionalOperations resolution option (case split)
	var got *protocol.ResolutionModel
	var err error
	if VBound("VIAOPTS", 0) == 1 && VNondetBool("viaAdditionalOperations") {
		VCover("via-additional-operations")
		got, err = vResolve(ps, nil, document.WithAdditionalOperations(us))
	} else {
		got, err = vResolve(ps, us)
	}
	want, ok := vRefResolve(append(vSortLex(pub), vSortLex(unpub)...))
	VAssert("C02/error-iff-model-error-with-unpublished", (err != nil) == !ok)
	if err != nil || !ok {
		VCover("error")
		return
	}
	VCover("resolved")
	VAssert("C02/published-take-precedence-over-unpublished", vSameState(got, want))
	for _, tag := range vW.okTags {
		if !vIsPublished(all[tag]) {
			VCover("unpublished-applied")
		}
	}
}
