package txnprovider

import (
	"encoding/json"

	"github.com/trustbloc/sidetree-core-go/pkg/api/operation"
	"github.com/trustbloc/sidetree-core-go/pkg/api/protocol"
	"github.com/trustbloc/sidetree-core-go/pkg/api/txn"
	"github.com/trustbloc/sidetree-core-go/pkg/patch"
	"github.com/trustbloc/sidetree-core-go/pkg/versions/1_0/model"
	"github.com/trustbloc/sidetree-core-go/pkg/versions/1_0/operationparser"
)

const vRTMod = "github.com/trustbloc/sidetree-core-go/pkg/"

// ---- harness world: CAS, identity compression, parser returning symbolic parsed operations ----

type vRTCas struct {
	files map[string][]byte
	order []string
}

func (c *vRTCas) Write(content []byte) (string, error) {
	VAssume(len(content) <= 1000) // files are within the size limits of the protocol below
	addr := "cas-" + string(rune('a'+len(c.order)))
	c.files[addr] = content
	c.order = append(c.order, addr)
	return addr, nil
}
func (c *vRTCas) Read(addr string) ([]byte, error) {
	b, ok := c.files[addr]
	if !ok {
		return nil, VErr("not found")
	}
	return b, nil
}

type vRTCodec struct{}

func (vRTCodec) Compress(alg string, data []byte) ([]byte, error)   { return data, nil }
func (vRTCodec) Decompress(alg string, data []byte) ([]byte, error) { return data, nil }

type vRTMetrics struct{}

func (vRTMetrics) CASWriteSize(string, int) {}

type vQueuedModel struct {
	expired bool
	op      *model.Operation
	origin  string // anchor origin embedded in the request (create: suffix data; recover: signed data)
}

type vRTParser struct{ ops []*vQueuedModel }

func (p *vRTParser) ParseOperation(ns string, req []byte, batch bool) (*model.Operation, error) {
	m := p.ops[int(req[0])]
	if m.expired {
		return nil, operationparser.ErrOperationExpired
	}
	return m.op, nil
}
func (p *vRTParser) ValidateSuffixData(sd *model.SuffixDataModel) error {
	if sd == nil {
		return VErr("missing suffix data")
	}
	return nil
}
func (p *vRTParser) ValidateDelta(d *model.DeltaModel) error {
	if d == nil {
		return VErr("missing delta")
	}
	return nil
}
func (p *vRTParser) ParseSignedDataForUpdate(string) (*model.UpdateSignedDataModel, error) {
	return &model.UpdateSignedDataModel{}, nil
}
func (p *vRTParser) ParseSignedDataForDeactivate(string) (*model.DeactivateSignedDataModel, error) {
	return &model.DeactivateSignedDataModel{}, nil
}
func (p *vRTParser) ParseSignedDataForRecover(s string) (*model.RecoverSignedDataModel, error) {
	return &model.RecoverSignedDataModel{AnchorOrigin: VUFString("signed.origin", s)}, nil
}

func vRTSuffixOf(sd *model.SuffixDataModel) string {
	return VUFString("uniqueSuffix", sd.DeltaHash, sd.RecoveryCommitment, sd.Type)
}

var vRTTypes = []operation.Type{operation.TypeCreate, operation.TypeRecover, operation.TypeUpdate, operation.TypeDeactivate}

func vRTRank(t operation.Type) int {
	for i, x := range vRTTypes {
		if x == t {
			return i
		}
	}
	return -1
}

func vPatchToken(d *model.DeltaModel) string {
	if d == nil || len(d.Patches) == 0 {
		return "<none>"
	}
	s, _ := d.Patches[0]["tok"].(string)
	return s
}

// VHarness_C13_roundtrip: REAL OperationHandler.PrepareTxnFiles on n queued operations (types by case
// split, suffixes symbolic so that repeated suffixes are simply models, expiry symbolic) followed by REAL
// OperationProvider.GetTxnOperations on the anchor string it returned, over a harness CAS.
func VHarness_C13_roundtrip() {
	n := VBound("N", 2)
	vStub := func() {
		VStub(vRTMod+"versions/1_0/model.GetUniqueSuffix", func(sd *model.SuffixDataModel, algs []uint) (string, error) {
			if len(algs) == 0 {
				return "", VErr("algorithm not provided")
			}
			return vRTSuffixOf(sd), nil
		})
	}
	vStub()
	parser := &vRTParser{}
	var queued []*operation.QueuedOperation
	for i := 0; i < n; i++ {
		typ := vRTTypes[VNondetRange("type", 0, 3)]
		m := &vQueuedModel{expired: VNondetBool("expired")}
		op := &model.Operation{Type: typ, SignedData: VNondetString("signedData"), RevealValue: VNondetString("reveal")}
		if typ != operation.TypeDeactivate {
			op.Delta = &model.DeltaModel{UpdateCommitment: VNondetString("delta.UC"), Patches: []patch.Patch{{"tok": VNondetString("delta.patches")}}}
		}
		if typ == operation.TypeCreate {
			m.origin = VNondetString("origin")
			op.SuffixData = &model.SuffixDataModel{DeltaHash: VNondetString("sd.deltaHash"), RecoveryCommitment: VNondetString("sd.RC"), AnchorOrigin: m.origin}
			op.UniqueSuffix = vRTSuffixOf(op.SuffixData)
			op.SignedData, op.RevealValue = "", ""
			op.AnchorOrigin = m.origin
		} else {
			op.UniqueSuffix = VNondetString("suffix")
			// operation references satisfy the reader's multihash rules (non-empty, within the maximum hash length)
			VAssume(VAnd(op.UniqueSuffix != "", op.RevealValue != "", len(op.UniqueSuffix) <= 100, len(op.RevealValue) <= 100))
		}
		if typ == operation.TypeRecover {
			m.origin = VUFString("signed.origin", op.SignedData)
			op.AnchorOrigin = m.origin
		}
		m.op = op
		parser.ops = append(parser.ops, m)
		queued = append(queued, &operation.QueuedOperation{Type: typ, UniqueSuffix: op.UniqueSuffix, Namespace: "ns", OperationRequest: []byte{byte(i)},
			AnchorOrigin: VNondetString("queued.origin")})
	}
	p := protocol.Protocol{MaxOperationHashLength: 100, MaxCasURILength: 100, CompressionAlgorithm: "GZIP", MaxCoreIndexFileSize: 1000,
		MaxProofFileSize: 1000, MaxProvisionalIndexFileSize: 1000, MaxChunkFileSize: 1000, MaxMemoryDecompressionFactor: 1, MultihashAlgorithms: []uint{18}}
	cas := &vRTCas{files: map[string][]byte{}}
	handler := NewOperationHandler(p, cas, vRTCodec{}, parser, vRTMetrics{})

	info, err := handler.PrepareTxnFiles(queued) // REAL writer
	VAssert("C13/prepare-succeeds", err == nil)
	if err != nil {
		return
	}
	// expected partition: first non-expired operation per suffix is included, later ones deferred
	var included, deferred, expired []int
	for i, m := range parser.ops {
		if m.expired {
			expired = append(expired, i)
			continue
		}
		dup := false
		for _, j := range included {
			if parser.ops[j].op.UniqueSuffix == m.op.UniqueSuffix {
				dup = true
			}
		}
		if dup {
			deferred = append(deferred, i)
		} else {
			included = append(included, i)
		}
	}
	VAssert("C13/accounting-included", len(info.OperationReferences) == len(included))
	VAssert("C13/accounting-deferred", len(info.AdditionalOperations) == len(deferred))
	VAssert("C13/accounting-expired", len(info.ExpiredOperations) == len(expired))
	for k, i := range deferred {
		if k < len(info.AdditionalOperations) {
			VAssert("C13/deferred-are-the-later-ones-in-order", info.AdditionalOperations[k] == queued[i])
		}
	}
	for k, i := range expired {
		if k < len(info.ExpiredOperations) {
			VAssert("C13/expired-in-order", info.ExpiredOperations[k] == queued[i])
		}
	}
	if len(deferred) > 0 {
		VCover("repeated-suffix-deferred")
	}
	if len(included) == 0 {
		VCover("nothing-included") // anchored as "0.<uri>", which the reader rejects by design: not asserted
		return
	}
	onlyDeactivate := true
	for _, i := range included {
		if parser.ops[i].op.Type != operation.TypeDeactivate {
			onlyDeactivate = false
		}
	}
	if onlyDeactivate && len(deferred) == 0 && len(expired) == 0 {
		VCover("deactivate-only")
		for _, a := range info.Artifacts {
			VAssert("C13/deactivate-only-has-no-provisional-files", a.Type == protocol.TypePermanent)
		}
	}

	provider := NewOperationProvider(p, parser, cas, vRTCodec{})
	got, err := provider.GetTxnOperations(&txn.SidetreeTxn{AnchorString: info.AnchorString, Namespace: "ns"}) // REAL reader
	VAssert("C13/written-batch-reads-back", err == nil)
	if err != nil {
		return
	}
	VCover("read-back")
	ad, _ := ParseAnchorData(info.AnchorString)
	VAssert("C13/anchor-count-equals-read-back", VAnd(ad != nil, ad.NumberOfOperations == len(got), len(got) == len(included)))
	// expected order: create, recover, update, deactivate; queue order inside each group
	var want []int
	for r := 0; r < 4; r++ {
		for _, i := range included {
			if vRTRank(parser.ops[i].op.Type) == r {
				want = append(want, i)
			}
		}
	}
	for k, i := range want {
		if k >= len(got) {
			break
		}
		w, g := parser.ops[i].op, got[k]
		VAssert("C13/type-suffix-and-order", VAnd(g.Type == w.Type, g.UniqueSuffix == w.UniqueSuffix))
		switch w.Type {
		case operation.TypeCreate:
			var r model.CreateRequest
			VAssert("C13/request-decodes", json.Unmarshal(g.OperationRequest, &r) == nil)
			ok := r.SuffixData != nil && r.Delta != nil
			VAssert("C13/create-request-complete", ok)
			if ok {
				o, _ := r.SuffixData.AnchorOrigin.(string)
				VAssert("C13/create-request-equal", VAnd(r.Operation == operation.TypeCreate, r.SuffixData.DeltaHash == w.SuffixData.DeltaHash,
					r.SuffixData.RecoveryCommitment == w.SuffixData.RecoveryCommitment, o == parser.ops[i].origin,
					r.Delta.UpdateCommitment == w.Delta.UpdateCommitment, vPatchToken(r.Delta) == vPatchToken(w.Delta)))
			}
			go_, _ := g.AnchorOrigin.(string)
			VAssert("C13/create-anchor-origin-from-request", go_ == parser.ops[i].origin)
		case operation.TypeRecover:
			var r model.RecoverRequest
			VAssert("C13/request-decodes", json.Unmarshal(g.OperationRequest, &r) == nil)
			VAssert("C13/recover-request-equal", VAnd(r.Operation == operation.TypeRecover, r.DidSuffix == w.UniqueSuffix, r.RevealValue == w.RevealValue,
				r.SignedData == w.SignedData, r.Delta != nil && r.Delta.UpdateCommitment == w.Delta.UpdateCommitment, vPatchToken(r.Delta) == vPatchToken(w.Delta)))
			go_, _ := g.AnchorOrigin.(string)
			VAssert("C13/recover-anchor-origin-from-signed-data", go_ == parser.ops[i].origin)
		case operation.TypeUpdate:
			var r model.UpdateRequest
			VAssert("C13/request-decodes", json.Unmarshal(g.OperationRequest, &r) == nil)
			VAssert("C13/update-request-equal", VAnd(r.Operation == operation.TypeUpdate, r.DidSuffix == w.UniqueSuffix, r.RevealValue == w.RevealValue,
				r.SignedData == w.SignedData, r.Delta != nil && r.Delta.UpdateCommitment == w.Delta.UpdateCommitment, vPatchToken(r.Delta) == vPatchToken(w.Delta)))
		default:
			var r model.DeactivateRequest
			VAssert("C13/request-decodes", json.Unmarshal(g.OperationRequest, &r) == nil)
			VAssert("C13/deactivate-request-equal", VAnd(r.Operation == operation.TypeDeactivate, r.DidSuffix == w.UniqueSuffix, r.RevealValue == w.RevealValue,
				r.SignedData == w.SignedData))
		}
	}
}
