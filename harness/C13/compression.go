package compression

import (
	"compress/gzip"
	"errors"
	"io"
)

// ---- abstract gzip stream: an injective encoder and a reader that honours only the io.Reader contract ----
//
// The deflate code itself (hashing, Huffman tables, whole-stream loops) is out of reach of the executor.
// What the repository owns is the wrapper around it: how the writer is fed and closed, how the reader is
// drained, how errors are mapped and how the registry dispatches on the algorithm name. That wrapper is
// executed for real against an abstract stream: the writer emits a fresh blob that stands for the
// compressed form of everything written before Close; the reader hands the original content back in
// chunks of ARBITRARY size (any 1 <= n <= len(p), EOF either with the last chunk or on the next call),
// which is all io.Reader promises and is what a real gzip reader does once the content exceeds its window.

type vGzWriter struct {
	w       io.Writer
	pending []byte
	closed  bool
}

type vGzReader struct {
	rem    []byte
	closed bool
}

type vGzWorld struct {
	writers map[*gzip.Writer]*vGzWriter
	readers map[*gzip.Reader]*vGzReader
	blob    string // compressed form handed out so far ("" = none)
	content []byte // what it stands for
	reads   int
}

var vGz *vGzWorld

func vInstallGzipStubs() {
	vGz = &vGzWorld{writers: map[*gzip.Writer]*vGzWriter{}, readers: map[*gzip.Reader]*vGzReader{}}
	VStub("compress/gzip.NewWriter", func(w io.Writer) *gzip.Writer {
		z := new(gzip.Writer)
		vGz.writers[z] = &vGzWriter{w: w}
		return z
	})
	VStub("(*compress/gzip.Writer).Write", func(z *gzip.Writer, p []byte) (int, error) {
		st := vGz.writers[z]
		if st.closed {
			return 0, errors.New("gzip: write to closed writer")
		}
		st.pending = append(st.pending, p...)
		return len(p), nil
	})
	VStub("(*compress/gzip.Writer).Close", func(z *gzip.Writer) error {
		st := vGz.writers[z]
		if st.closed {
			return nil
		}
		st.closed = true
		// the compressed form: fresh bytes of some length (never empty: a gzip stream has a header)
		n := VNondetRange("gzip.compressedLen", 1, len(st.pending)+2)
		blob := make([]byte, n)
		for i := range blob {
			blob[i] = VNondetU8("gzip.byte")
		}
		vGz.blob, vGz.content = string(blob), append([]byte(nil), st.pending...)
		_, err := st.w.Write(blob)
		return err
	})
	VStub("compress/gzip.NewReader", func(r io.Reader) (*gzip.Reader, error) {
		all, err := io.ReadAll(r)
		if err != nil {
			return nil, err
		}
		if vGz.blob == "" || string(all) != vGz.blob {
			return nil, errors.New("gzip: invalid header")
		}
		z := new(gzip.Reader)
		vGz.readers[z] = &vGzReader{rem: vGz.content}
		return z, nil
	})
	VStub("(*compress/gzip.Reader).Read", func(z *gzip.Reader, p []byte) (int, error) {
		st := vGz.readers[z]
		if st.closed {
			return 0, errors.New("gzip: read from closed reader")
		}
		if len(p) == 0 {
			return 0, nil
		}
		if len(st.rem) == 0 {
			return 0, io.EOF
		}
		vGz.reads++
		max := len(st.rem)
		if len(p) < max {
			max = len(p)
		}
		n := VNondetRange("gzip.chunk", 1, max)
		copy(p, st.rem[:n])
		st.rem = st.rem[n:]
		if len(st.rem) == 0 && VNondetBool("gzip.eofWithLastChunk") {
			return n, io.EOF
		}
		return n, nil
	})
	VStub("(*compress/gzip.Reader).Close", func(z *gzip.Reader) error {
		vGz.readers[z].closed = true
		return nil
	})
}

func vBytes(name string, n int) []byte {
	b := make([]byte, n)
	for i := range b {
		b[i] = VNondetU8(name)
	}
	return b
}

func vSameBytes(a, b []byte) bool {
	if len(a) != len(b) {
		return false
	}
	eq := true
	for i := range a {
		eq = VAnd(eq, a[i] == b[i])
	}
	return eq
}

// VHarness_C13_compression_roundtrip: through the REAL registry and the REAL gzip wrapper, what is
// compressed decompresses to exactly the same bytes, however the stream hands the content back; an
// unknown algorithm name and a blob that is not a compressed stream are errors, never a panic.
func VHarness_C13_compression_roundtrip() {
	vInstallGzipStubs()
	r := New(WithDefaultAlgorithms()) // REAL registry with the REAL gzip algorithm wrapper
	data := vBytes("data", VNondetRange("len", 0, VBound("LEN", 3)))
	in := append([]byte(nil), data...)

	alg := VNondetString("alg")
	c, err := r.Compress(alg, in) // REAL code
	if alg != "GZIP" {
		VCover("unknown-algorithm")
		VAssert("C13/unknown-compression-algorithm-is-error", VAnd(err != nil, c == nil))
		_, derr := r.Decompress(alg, in)
		VAssert("C13/unknown-decompression-algorithm-is-error", derr != nil)
		return
	}
	VAssert("C13/compress-succeeds", err == nil)
	if err != nil {
		return
	}
	VAssert("C13/compress-leaves-input-untouched", vSameBytes(in, data))
	VAssert("C13/compressed-form-is-the-whole-stream", string(c) == vGz.blob)

	if VNondetBool("garbage") {
		g := vBytes("garbage.byte", VNondetRange("garbage.len", 0, 2))
		if string(g) != vGz.blob {
			VCover("garbage-rejected")
			out, gerr := r.Decompress("GZIP", g) // REAL code
			VAssert("C13/not-a-compressed-stream-is-error", VAnd(gerr != nil, out == nil))
		}
		return
	}

	out, err := r.Decompress("GZIP", c) // REAL code
	VAssert("C13/decompress-succeeds", err == nil)
	if err != nil {
		return
	}
	VCover("round-trip")
	if vGz.reads > 1 {
		VCover("content-delivered-in-several-chunks")
	}
	VAssert("C13/decompress-of-compress-is-identity", vSameBytes(out, data))
}
