package jsoncanonicalizer

import "math"

// VHarness_C07_number_dispatch: NumberToJSON on an arbitrary float64 (all 2^64 bit patterns):
// NaN / ±Inf are errors, ±0 is "0", the sign is split off, and the fixed notation is requested exactly
// for 1e-6 <= |x| < 1e21 (ECMAScript Number::toString); the digits themselves (strconv.FormatFloat and its
// post-processing) are outside the claim.
func VHarness_C07_number_dispatch() {
	bits := VNondetU64("float.bits")
	x := math.Float64frombits(bits)
	var gotFmt byte
	var gotArg float64
	calls := 0
	VStub("strconv.FormatFloat", func(f float64, fmt byte, prec, bitSize int) string {
		if calls == 0 {
			gotFmt, gotArg = fmt, f
		}
		calls++
		return "7"
	})
	res, err := NumberToJSON(x) // REAL code
	exp := (bits >> 52) & 0x7ff
	if exp == 0x7ff {
		VCover("nan-or-inf")
		VAssert("C07/nan-and-infinity-rejected", err != nil)
		return
	}
	VAssert("C07/finite-number-accepted", err == nil)
	if bits<<1 == 0 {
		VCover("zero")
		VAssert("C07/both-zeros-are-0", res == "0")
		return
	}
	VCover("non-zero")
	neg := bits>>63 == 1
	abs := math.Float64frombits(bits &^ (1 << 63))
	VAssert("C07/formatter-gets-the-absolute-value", math.Float64bits(gotArg) == math.Float64bits(abs))
	wantFixed := abs >= 1e-6 && abs < 1e21
	if wantFixed {
		VCover("fixed-notation")
		VAssert("C07/fixed-notation-in-es6-range", gotFmt == 'f')
	} else {
		VCover("exponent-notation")
		VAssert("C07/exponent-notation-outside-es6-range", gotFmt == 'e')
	}
	if neg {
		VAssert("C07/negative-sign-prefixed", res == "-7")
	} else {
		VAssert("C07/no-sign-for-positive", res == "7")
	}
}
