package jsoncanonicalizer

// vScalar: a symbolic Unicode scalar value spelled as valid UTF-8 of n bytes (n by case split).
type vScalar struct {
	bytes []byte
	cp    uint32
}

func vSymScalar(name string) vScalar {
	n := VNondetRange(name+".len", 1, 4)
	b := vSymBytes(name, n)
	var cp uint32
	switch n {
	case 1:
		// printable ASCII that needs no escaping inside a JSON string
		VAssume(VAnd(b[0] >= 0x20, b[0] < 0x80, b[0] != '"', b[0] != '\\'))
		cp = uint32(b[0])
	case 2:
		VAssume(VAnd(b[0] >= 0xC2, b[0] <= 0xDF, b[1]&0xC0 == 0x80))
		cp = uint32(b[0]&0x1F)<<6 | uint32(b[1]&0x3F)
	case 3:
		VAssume(VAnd(b[0]&0xF0 == 0xE0, b[1]&0xC0 == 0x80, b[2]&0xC0 == 0x80))
		cp = uint32(b[0]&0x0F)<<12 | uint32(b[1]&0x3F)<<6 | uint32(b[2]&0x3F)
		VAssume(VAnd(cp >= 0x800, VOr(cp < 0xD800, cp > 0xDFFF))) // shortest form, no surrogates
	default:
		VAssume(VAnd(b[0]&0xF8 == 0xF0, b[1]&0xC0 == 0x80, b[2]&0xC0 == 0x80, b[3]&0xC0 == 0x80))
		cp = uint32(b[0]&0x07)<<18 | uint32(b[1]&0x3F)<<12 | uint32(b[2]&0x3F)<<6 | uint32(b[3]&0x3F)
		VAssume(VAnd(cp >= 0x10000, cp <= 0x10FFFF))
	}
	return vScalar{b, cp}
}

// vUTF16Less: order of two scalars by their UTF-16 code units (RFC 8785): a BMP scalar is one unit, an
// astral scalar a surrogate pair whose first unit lies in D800..DBFF — so astral scalars sort BEFORE
// U+E000..U+FFFF although their code points are larger.
func vUTF16First(cp uint32) uint32 {
	if cp >= 0x10000 {
		return 0xD800 + (cp-0x10000)>>10
	}
	return cp
}

func vUTF16Less(a, b uint32) bool {
	fa, fb := vUTF16First(a), vUTF16First(b)
	if fa != fb {
		return fa < fb
	}
	// same first unit: both BMP (equal) or both astral with the same high surrogate: the low one decides
	return a < b
}

// VHarness_C07_key_order: {"<k1>":true,"<k2>":true} with each key one symbolic Unicode scalar: the output
// lists the members in UTF-16 code-unit order; equal names are rejected.
func VHarness_C07_key_order() {
	k1, k2 := vSymScalar("k1"), vSymScalar("k2")
	in := []byte(`{"`)
	in = append(in, k1.bytes...)
	in = append(in, []byte(`":true,"`)...)
	in = append(in, k2.bytes...)
	in = append(in, []byte(`":true}`)...)
	out, err := Transform(in) // REAL code
	if k1.cp == k2.cp {
		VCover("duplicate")
		VAssert("C07/duplicate-member-names-rejected", err != nil)
		return
	}
	VAssert("C07/distinct-names-accepted", err == nil)
	if err != nil {
		return
	}
	first, second := k1, k2
	if vUTF16Less(k2.cp, k1.cp) {
		first, second = k2, k1
		VCover("reordered")
	}
	if (k1.cp >= 0x10000) != (k2.cp >= 0x10000) {
		VCover("astral-vs-bmp")
	}
	want := []byte(`{"`)
	want = append(want, first.bytes...)
	want = append(want, []byte(`":true,"`)...)
	want = append(want, second.bytes...)
	want = append(want, []byte(`":true}`)...)
	VAssert("C07/members-ordered-by-utf16-code-units", string(out) == string(want))
}
