package jsoncanonicalizer

// ---- helpers -----------------------------------------------------------------------------------

func vHexVal(c byte) (uint16, bool) {
	switch {
	case '0' <= c && c <= '9':
		return uint16(c - '0'), true
	case 'a' <= c && c <= 'f':
		return uint16(c-'a') + 10, true
	case 'A' <= c && c <= 'F':
		return uint16(c-'A') + 10, true
	}
	return 0, false
}

func vUnit(b []byte) (uint16, bool) {
	var v uint16
	for _, c := range b {
		d, ok := vHexVal(c)
		if !ok {
			return 0, false
		}
		v = v<<4 | d
	}
	return v, true
}

func vSymBytes(name string, n int) []byte {
	b := make([]byte, n)
	for i := range b {
		b[i] = VNondetU8(name)
	}
	return b
}

// VHarness_C07_u_escapes: ["\uXXXX\uYYYY"] with the eight hex positions fully symbolic: accepted only if
// all are hex digits and the two UTF-16 units form one non-surrogate unit followed by another, or a high
// surrogate followed by a low surrogate (lone / reversed / doubled surrogates are rejected).
func VHarness_C07_u_escapes() {
	// the leading HEX digits of each unit are symbolic (they decide the surrogate class), the rest are '0'
	h := VBound("HEX", 2)
	x, y := vSymBytes("x", h), vSymBytes("y", h)
	for len(x) < 4 {
		x, y = append(x, '0'), append(y, '0')
	}
	in := []byte(`["\u`)
	in = append(in, x...)
	in = append(in, '\\', 'u')
	in = append(in, y...)
	in = append(in, '"', ']')
	out, err := Transform(in) // REAL code
	if err != nil {
		VCover("rejected")
		return
	}
	VCover("accepted")
	xu, okx := vUnit(x)
	yu, oky := vUnit(y)
	VAssert("C07/u-escape-digits-are-hex", okx && oky)
	if !(okx && oky) {
		return
	}
	xHigh := xu >= 0xD800 && xu <= 0xDBFF
	xLow := xu >= 0xDC00 && xu <= 0xDFFF
	yHigh := yu >= 0xD800 && yu <= 0xDBFF
	yLow := yu >= 0xDC00 && yu <= 0xDFFF
	if xHigh && yLow {
		VCover("surrogate-pair")
	}
	VAssert("C07/lone-or-reversed-surrogates-rejected", VAnd(!xLow, VImplies(xHigh, yLow), VImplies(!xHigh, VAnd(!yHigh, !yLow))))
	_ = out
}

// VHarness_C07_string_escapes: ["<b1>...<bn>"] with n fully symbolic bytes: accepted => no raw control
// character or quote inside, only legal escapes; the output uses the minimal escape for every character,
// and canonicalising the output again gives the same bytes (fixed point).
func VHarness_C07_string_escapes() {
	n := VBound("LEN", 3)
	body := vSymBytes("b", n)
	// the body stays inside ONE string literal: a quote appears only as the escape \" (not after an escaped backslash)
	for i, c := range body {
		if c == '"' {
			VAssume(i >= 1 && body[i-1] == '\\' && (i < 2 || body[i-2] != '\\'))
		}
	}
	in := []byte(`["`)
	in = append(in, body...)
	in = append(in, '"', ']')
	out, err := Transform(in) // REAL code
	if err != nil {
		VCover("rejected")
		return
	}
	VCover("accepted")
	// the accepted input decodes to a character sequence s; raw control characters never appear in it unescaped
	for i, c := range body {
		if i > 0 && body[i-1] == '\\' {
			continue
		}
		VAssert("C07/raw-control-character-rejected", c >= 0x20)
	}
	// output: ["...."] where every byte is either literal (>= 0x20, not quote/backslash) or part of a legal escape
	VAssert("C07/output-framed", VAnd(len(out) >= 4, out[0] == '[', out[1] == '"', out[len(out)-1] == ']', out[len(out)-2] == '"'))
	inner := out[2 : len(out)-2]
	for i := 0; i < len(inner); i++ {
		c := inner[i]
		VAssert("C07/output-has-no-raw-control-character", c >= 0x20)
		if c == '\\' {
			VAssert("C07/output-escape-complete", i+1 < len(inner))
			e := inner[i+1]
			if e == 'u' {
				// \u00XX lower-case, only for control characters without a short escape
				VAssert("C07/output-u-escape-shape", VAnd(i+5 < len(inner), inner[i+2] == '0', inner[i+3] == '0', VOr(inner[i+4] == '0', inner[i+4] == '1')))
				h := inner[i+5]
				VAssert("C07/output-u-escape-lower-case-hex", VOr(VAnd(h >= '0', h <= '9'), VAnd(h >= 'a', h <= 'f')))
				v, _ := vUnit(inner[i+2 : i+6])
				VAssert("C07/output-u-escape-only-when-no-short-escape", VAnd(v < 0x20, v != 8, v != 9, v != 10, v != 12, v != 13))
				i += 5
			} else {
				VAssert("C07/output-escape-from-legal-set", VOr(e == '\\', e == '"', e == 'b', e == 'f', e == 'n', e == 'r', e == 't'))
				i++
			}
		} else {
			VAssert("C07/output-quote-is-escaped", c != '"')
		}
	}
	// fixed point
	out2, err2 := Transform(out)
	VAssert("C07/output-recanonicalises", err2 == nil)
	if err2 == nil {
		VAssert("C07/canonical-form-is-a-fixed-point", string(out2) == string(out))
		VCover("fixed-point")
	}
}
