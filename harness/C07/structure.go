package jsoncanonicalizer

import "errors"

// ---- reference recogniser / serialiser for the structural fragment of JSON -----------------------
// alphabet: { } [ ] , : " space 1   — values are objects, arrays, strings without escapes and
// numbers made of the digit 1 (number formatting itself is replaced by a token, see below).

type vRefParser struct {
	in  []byte
	pos int
	err bool
}

func (p *vRefParser) ws() {
	for p.pos < len(p.in) && p.in[p.pos] == ' ' {
		p.pos++
	}
}

func (p *vRefParser) peek() byte {
	p.ws()
	if p.pos >= len(p.in) {
		p.err = true
		return 0
	}
	return p.in[p.pos]
}

func (p *vRefParser) str() []byte {
	// opening quote already consumed
	start := p.pos
	for p.pos < len(p.in) && p.in[p.pos] != '"' {
		p.pos++
	}
	if p.pos >= len(p.in) {
		p.err = true
		return nil
	}
	s := p.in[start:p.pos]
	p.pos++
	return s
}

func vBytesLess(a, b []byte) bool { // ASCII keys: UTF-16 order is byte order
	for i := 0; i < len(a) && i < len(b); i++ {
		if a[i] != b[i] {
			return a[i] < b[i]
		}
	}
	return len(a) < len(b)
}

func vBytesEq(a, b []byte) bool {
	if len(a) != len(b) {
		return false
	}
	for i := range a {
		if a[i] != b[i] {
			return false
		}
	}
	return true
}

func (p *vRefParser) value() []byte {
	c := p.peek()
	if p.err {
		return nil
	}
	switch c {
	case '{':
		p.pos++
		var keys, vals [][]byte
		first := true
		for {
			if p.peek() == '}' && !p.err {
				p.pos++
				break
			}
			if p.err {
				return nil
			}
			if !first {
				if p.peek() != ',' {
					p.err = true
					return nil
				}
				p.pos++
			}
			first = false
			if p.peek() != '"' || p.err {
				p.err = true
				return nil
			}
			p.pos++
			k := p.str()
			if p.err {
				return nil
			}
			if p.peek() != ':' || p.err {
				p.err = true
				return nil
			}
			p.pos++
			v := p.value()
			if p.err {
				return nil
			}
			// insert sorted, reject duplicates
			at := len(keys)
			for i := range keys {
				if vBytesEq(keys[i], k) {
					p.err = true
					return nil
				}
				if vBytesLess(k, keys[i]) {
					at = i
					break
				}
			}
			keys = append(keys, nil)
			vals = append(vals, nil)
			copy(keys[at+1:], keys[at:])
			copy(vals[at+1:], vals[at:])
			keys[at], vals[at] = k, v
		}
		out := []byte{'{'}
		for i := range keys {
			if i > 0 {
				out = append(out, ',')
			}
			out = append(out, '"')
			out = append(out, keys[i]...)
			out = append(out, '"', ':')
			out = append(out, vals[i]...)
		}
		return append(out, '}')
	case '[':
		p.pos++
		out := []byte{'['}
		first := true
		for {
			if p.peek() == ']' && !p.err {
				p.pos++
				break
			}
			if p.err {
				return nil
			}
			if !first {
				if p.peek() != ',' {
					p.err = true
					return nil
				}
				p.pos++
				out = append(out, ',')
			}
			first = false
			v := p.value()
			if p.err {
				return nil
			}
			out = append(out, v...)
		}
		return append(out, ']')
	case '"':
		p.pos++
		s := p.str()
		if p.err {
			return nil
		}
		out := []byte{'"'}
		out = append(out, s...)
		return append(out, '"')
	case '1':
		n := 0
		for p.pos < len(p.in) && p.in[p.pos] == '1' {
			p.pos++
			n++
		}
		// a number token ends at , ] } or white space
		if p.pos < len(p.in) {
			e := p.in[p.pos]
			if e != ',' && e != ']' && e != '}' && e != ' ' {
				p.err = true
				return nil
			}
		}
		out := []byte{'N'}
		for i := 0; i < n; i++ {
			out = append(out, '1')
		}
		return out
	}
	p.err = true
	return nil
}

func vRefTransform(in []byte) ([]byte, bool) {
	p := &vRefParser{in: in}
	c := p.peek()
	if p.err || (c != '{' && c != '[') {
		return nil, false
	}
	out := p.value()
	if p.err {
		return nil, false
	}
	for p.pos < len(in) {
		if in[p.pos] != ' ' {
			return nil, false
		}
		p.pos++
	}
	return out, true
}

var vAlphabet = []byte{'{', '}', '[', ']', ',', ':', '"', ' ', '1'}

// VHarness_C07_structure: EVERY byte string of length L over the structural alphabet: Transform
// accepts exactly what the reference recogniser accepts and, on acceptance, emits exactly the
// reference serialisation (members sorted, no insignificant white space); unterminated structures,
// missing values, duplicate names and trailing content are rejected.
func VHarness_C07_structure() {
	// number formatting is a token here (its digits are outside the claim)
	VStub("strconv.ParseFloat", func(s string, bits int) (float64, error) {
		for i := 0; i < len(s); i++ {
			if s[i] != '1' {
				return 0, errors.New("invalid syntax")
			}
		}
		return float64(len(s)), nil
	})
	VStub("github.com/trustbloc/sidetree-core-go/pkg/internal/jsoncanonicalizer.NumberToJSON", func(f float64) (string, error) {
		s := "N"
		for i := 0; i < int(f); i++ {
			s += "1"
		}
		return s, nil
	})
	l := VNondetRange("length", 2, VBound("L", 4))
	in := make([]byte, l)
	for i := range in {
		// a symbolic byte constrained to the alphabet: the solver, not enumeration, covers the strings
		b := VNondetU8("byte")
		inAlphabet := false
		for _, a := range vAlphabet {
			inAlphabet = VOr(inAlphabet, b == a)
		}
		VAssume(inAlphabet)
		in[i] = b
	}
	out, err := Transform(in) // REAL code
	want, ok := vRefTransform(in)
	VAssert("C07/accepts-exactly-well-formed-structures", (err == nil) == ok)
	if err != nil || !ok {
		VCover("rejected")
		return
	}
	VCover("accepted")
	VAssert("C07/output-is-the-canonical-serialisation", string(out) == string(want))
	if len(out) < len(in) {
		VCover("whitespace-removed")
	}
}
