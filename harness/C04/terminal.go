package processor

import (
	"github.com/trustbloc/sidetree-core-go/pkg/api/operation"
)

// VHarness_C04_deactivate_terminal / recover_supersedes: real Resolve over N operations with
// arbitrary validity (validly signed ones with old keys included).
func VHarness_C04_full_ops() {
	n := VBound("N", 3)
	vWorldSetup(n, true)
	var ops []*operation.AnchoredOperation
	for i, r := range vW.recs {
		// anchoring order is fixed by the (distinct) transaction times; transaction numbers are arbitrary
		ops = append(ops, vAnchored(i, r, uint64(10+i), VNondetU64("txn.number"), true))
	}
	// the store returns them in anchoring order, reversed, or rotated
	var store []*operation.AnchoredOperation
	switch VNondetRange("storeOrder", 0, 2) {
	case 0:
		store = append(store, ops...)
	case 1:
		for i := len(ops) - 1; i >= 0; i-- {
			store = append(store, ops[i])
		}
	default:
		store = append(append(store, ops[1:]...), ops[0])
	}
	got, err := vResolve(store, nil)
	want, ok := vRefResolve(ops)
	VAssert("C04/error-iff-model-error", (err != nil) == !ok)
	if err != nil || !ok {
		VCover("error")
		return
	}
	VAssert("C04/state-eq-reference-resolver", vSameState(got, want))
	lastFull, deact := -1, false
	for k, tag := range vW.okTags {
		r := vW.recs[tag]
		if deact {
			VAssert("C04/nothing-applied-after-deactivate", false)
		}
		switch r.typ {
		case operation.TypeDeactivate:
			deact = true
			lastFull = k
		case operation.TypeRecover:
			lastFull = k
			VAssert("C04/no-full-op-after-update", true)
		case operation.TypeUpdate:
			if lastFull >= 0 {
				f := ops[vW.okTags[lastFull]]
				u := ops[tag]
				VAssert("C04/update-anchored-after-last-full-op", vLexLessOp(f, u))
			}
		}
	}
	// a full operation is never applied after an update in the same resolution
	seenUpdate := false
	for _, tag := range vW.okTags {
		switch vW.recs[tag].typ {
		case operation.TypeUpdate:
			seenUpdate = true
		case operation.TypeRecover, operation.TypeDeactivate:
			VAssert("C04/full-ops-before-updates", !seenUpdate)
		}
	}
	if deact {
		VCover("deactivated")
		VAssert("C04/deactivated-state", VAnd(got.Deactivated, vDocTok(got.Doc) == "", got.UpdateCommitment == "", got.RecoveryCommitment == ""))
		return
	}
	VAssert("C04/not-deactivated-without-deactivate", !got.Deactivated)
	if lastFull >= 0 {
		VCover("recovered")
		// document = recover's own content, then only the updates applied after it
		r := vW.recs[vW.okTags[lastFull]]
		tok := ""
		if r.deltaOK && r.docOK {
			tok = vApplyTok("", r.patches)
		}
		for _, tag := range vW.okTags[lastFull+1:] {
			ur := vW.recs[tag]
			if ur.docOK {
				tok = vApplyTok(tok, ur.patches)
			}
		}
		VAssert("C04/recovered-doc-is-recover-content-plus-later-updates", vDocTok(got.Doc) == tok)
	}
}
