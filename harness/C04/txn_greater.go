package processor

// verif:requires isOpWithTxnGreaterThanOrUnpublished

import (
	"github.com/trustbloc/sidetree-core-go/pkg/api/operation"
)

// Kernel lemma about an unexported helper (left out, with a note, on a tree that no longer has the helper;
// VHarness_C04_full_ops decides the same clause through the real Resolve).
// VHarness_C04_txn_greater: isOpWithTxnGreaterThanOrUnpublished == unpublished ∨ (t,n) >lex (T,N), all 64-bit values.
func VHarness_C04_txn_greater() {
	op := &operation.AnchoredOperation{TransactionTime: VNondetU64("t"), TransactionNumber: VNondetU64("n"), CanonicalReference: VNondetString("ref")}
	T, N := VNondetU64("T"), VNondetU64("N")
	got := isOpWithTxnGreaterThanOrUnpublished(op, T, N)
	want := VOr(op.CanonicalReference == "", op.TransactionTime > T, VAnd(op.TransactionTime == T, op.TransactionNumber > N))
	if got {
		VCover("selected")
	} else {
		VCover("filtered")
	}
	VAssert("C04/txn-greater-eq-spec", got == want)
}
