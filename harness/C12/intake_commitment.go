package operationparser

import (
	"github.com/trustbloc/sidetree-core-go/pkg/api/protocol"
	"github.com/trustbloc/sidetree-core-go/pkg/jws"
)

// VHarness_C12_intake_commitment: the intake rule "no re-commitment to the revealed key": for a
// symbolic key, a symbolic next commitment and a protocol with two enabled hash algorithms,
// validateCommitment accepts only if the commitment of the key — computed under the algorithm the
// NEXT COMMITMENT ITSELF names — differs from the next commitment.
func VHarness_C12_intake_commitment() {
	var p protocol.Protocol
	vHavocProtocol(&p, 1)
	vInstallParserStubs()
	parser := New(p)
	key := &jws.JWK{Kty: VNondetString("kty"), Crv: VNondetString("crv"), X: VNondetString("x"), Y: VNondetString("y")}
	next := VNondetString("nextCommitment")
	err := parser.validateCommitment(key, next) // REAL code
	if err != nil {
		VCover("rejected")
		return
	}
	VCover("accepted")
	VAssert("C12/next-commitment-well-formed", VUFBool("mh.wellformed", next))
	code := VUFU64("mh.code", next)
	VAssert("C12/next-commitment-algorithm-supported", VUFBool("mh.supported", code))
	VAssert("C12/accepted-next-commitment-is-not-the-commitment-of-the-revealed-key", VUFString("commitment", vJWKID(key), code) != next)
}
