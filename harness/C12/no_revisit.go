package processor

import (
	"github.com/trustbloc/sidetree-core-go/pkg/api/operation"
)

// VHarness_C12_no_revisit: during the real Resolve of N operations with arbitrary (possibly
// cyclic) commitments, no applied operation installs the commitment it consumes, the commitments
// consumed along one chain are pairwise distinct, and the loop makes a bounded number of Apply calls.
func VHarness_C12_no_revisit() {
	n := VBound("N", 3)
	vWorldSetup(n, true)
	var ops []*operation.AnchoredOperation
	for i, r := range vW.recs {
		ops = append(ops, vAnchored(i, r, uint64(10+i), uint64(i), true))
	}
	vW.maxApply = n*n + n
	_, err := vResolve(ops, nil)
	if err != nil {
		VCover("error")
		return
	}
	VCover("resolved")
	VAssert("C12/bounded-apply-calls", len(vW.applied) <= n*n+n)
	for k, tag := range vW.okTags {
		r := vW.recs[tag]
		if r.typ == operation.TypeCreate {
			continue
		}
		if k >= 2 {
			VCover("chain-of-two")
		}
		VAssert("C12/applied-op-does-not-recommit-consumed", vNext(r) != vW.consumed[k])
		VAssert("C12/applied-op-reveals-consumed", vC(vCommit(r.reveal)) == vW.consumed[k])
		for j := 0; j < k; j++ {
			rj := vW.recs[vW.okTags[j]]
			if rj.typ == operation.TypeCreate {
				continue
			}
			sameChain := (rj.typ == operation.TypeUpdate) == (r.typ == operation.TypeUpdate)
			if sameChain {
				VAssert("C12/chain-never-revisits-commitment", vW.consumed[j] != vW.consumed[k])
				if vNext(r) != "" {
					VAssert("C12/next-not-already-consumed", vNext(r) != vW.consumed[j])
				}
			}
		}
	}
}
