package operationparser

import (
	"encoding/json"

	"github.com/trustbloc/sidetree-core-go/pkg/api/operation"
	"github.com/trustbloc/sidetree-core-go/pkg/api/protocol"
	"github.com/trustbloc/sidetree-core-go/pkg/encoder"
	internal "github.com/trustbloc/sidetree-core-go/pkg/internal/jws"
	"github.com/trustbloc/sidetree-core-go/pkg/jws"
	"github.com/trustbloc/sidetree-core-go/pkg/patch"
	"github.com/trustbloc/sidetree-core-go/pkg/versions/1_0/model"
)

// ---- reference acceptance predicate, written from the property statement -------------------
//
// The harness decodes the same opaque blobs the parser decodes (the JSON stub is deterministic per
// input), so it sees exactly the request / signed-data values the parser saw and can state, for
// every protocol rule, whether it holds. The check is the equivalence  accepted ⇔ all rules hold.

type vRef struct {
	p        protocol.Protocol
	jcsLen   map[*model.DeltaModel]uint64
	patchOK  map[string]bool
	originOK bool
	timeOK   bool
}

var vR *vRef

func vIn(list []string, s string) bool {
	r := false
	for _, x := range list {
		r = VOr(r, x == s)
	}
	return r
}

func vCodeIn(list []uint, c uint64) bool {
	r := false
	for _, x := range list {
		r = VOr(r, uint64(x) == c)
	}
	return r
}

// multihash field rule: within the maximum hash length, well-formed, algorithm allowed
func (r *vRef) mhOK(mh string) bool {
	return VAnd(VStrLenLE(mh, uint64(r.p.MaxOperationHashLength)), int(r.p.MaxOperationHashLength) >= 0,
		VUFBool("mh.wellformed", mh), vCodeIn(r.p.MultihashAlgorithms, VUFU64("mh.code", mh)))
}

// signed data rules; returns the decoded headers' verdict
func (r *vRef) headersOK(s string) bool {
	if s == "" || !VUFBool("jws.parses", s) {
		return false
	}
	sig, err := internal.ParseJWS(s) // the same (memoised) decoded JWS the parser sees
	if err != nil {
		return false
	}
	h := sig.ProtectedHeaders
	if h == nil {
		return false
	}
	algRaw, has := h["alg"]
	if !has {
		return false
	}
	alg, isStr := algRaw.(string)
	if !isStr || alg == "" {
		return false
	}
	for k := range h {
		if k != "alg" && k != "kid" {
			return false
		}
	}
	return vIn(r.p.SignatureAlgorithms, alg)
}

func (r *vRef) keyOK(k *jws.JWK) bool {
	if k == nil {
		return false
	}
	if k.Crv == "" || k.Kty == "" || k.X == "" {
		return false
	}
	if !vIn(r.p.KeyAlgorithms, k.Crv) {
		return false
	}
	if k.Nonce != "" {
		b, err := encoder.DecodeString(k.Nonce)
		if err != nil {
			return false
		}
		if uint64(len(b)) != r.p.NonceSize {
			return false
		}
	}
	return true
}

var vKnownActions = []string{"replace", "add-public-keys", "remove-public-keys", "add-services", "remove-services", "ietf-json-patch", "add-also-known-as", "remove-also-known-as"}

func (r *vRef) deltaOK(d *model.DeltaModel) bool {
	if d == nil || len(d.Patches) == 0 {
		return false
	}
	for _, pt := range d.Patches {
		raw, has := pt["action"]
		if !has {
			return false
		}
		var a string
		switch v := raw.(type) {
		case string:
			a = v
		case patch.Action:
			a = string(v)
		default:
			return false
		}
		if !vIn(vKnownActions, a) || !vIn(r.p.Patches, a) {
			return false
		}
		if !VUFBool("patchvalidator.accepts", vPatchID(pt)) {
			return false
		}
	}
	if !r.mhOK(d.UpdateCommitment) {
		return false
	}
	return VAnd(vJCSLen(d) <= uint64(r.p.MaxDeltaSize), int(r.p.MaxDeltaSize) >= 0)
}

// no re-commitment to the revealed key
func (r *vRef) freshCommitment(k *jws.JWK, next string) bool {
	if !VUFBool("mh.wellformed", next) {
		return false
	}
	code := VUFU64("mh.code", next)
	if !VUFBool("mh.supported", uint64(uint(code))) {
		return false
	}
	return VUFString("commitment", vJWKID(k), uint64(uint(code))) != next
}

func (r *vRef) revealMatches(k *jws.JWK, reveal string) bool {
	return VAnd(VUFBool("mh.wellformed", reveal), VUFBool("mh.matches", vJWKID(k), reveal))
}

// ---- extra stubs for this harness -------------------------------------------------------------

var vPatchIDs map[string]string

// vPatchID names a patch object (its content is the subject of C18, opaque here).
func vPatchID(p patch.Patch) string {
	a, _ := p["action"].(string)
	return VUFString("patch.identity", a, len(p))
}

func vJCSLen(d *model.DeltaModel) uint64 {
	l := VUFU64("jcs.delta.len", vModelID(d))
	VAssume(l < 1<<40)
	return l
}

func vInstallIntakeStubs() {
	vInstallParserStubs()
	VStub(vMod+"versions/1_0/operationparser/patchvalidator.Validate", func(p patch.Patch) error {
		if VUFBool("patchvalidator.accepts", vPatchID(p)) {
			return nil
		}
		return VErr("invalid patch")
	})
	VStub("(*"+vMod+"versions/1_0/operationparser.Parser).validateDeltaSize", func(p *Parser, d *model.DeltaModel) error {
		// the canonical form of the delta is an opaque blob of symbolic length; the comparison is the parser's own
		if int(vJCSLen(d)) > int(p.MaxDeltaSize) {
			return VErr("delta size exceeds maximum delta size")
		}
		return nil
	})
	VStub(vMod+"versions/1_0/model.GetUniqueSuffix", func(sd *model.SuffixDataModel, algs []uint) (string, error) {
		if len(algs) == 0 {
			return "", VErr("algorithm not provided")
		}
		if !VUFBool("mh.supported", uint64(algs[0])) {
			return "", VErr("algorithm not supported")
		}
		return VUFString("uniqueSuffix", vModelID(sd), uint64(algs[0])), nil
	})
}

// VHarness_C10_accept_iff_rules: REAL Parser.ParseOperation(ns, buf, batch=false) on an opaque
// request of symbolic length under a fully symbolic protocol: accepted ⇔ every rule of the property
// holds (so every limit is inclusive, exact at its boundary and governed only by its own parameter).
func VHarness_C10_accept_iff_rules() {
	var p protocol.Protocol
	vHavocProtocol(&p, VBound("nlist", 1))
	VAssume(VAnd(p.MaxOperationSize < 1<<40, p.MaxDeltaSize < 1<<40, p.MaxOperationHashLength < 1<<40, p.NonceSize < 1<<40))
	vInstallIntakeStubs()
	VHavocBounds(VBound("L", 1), 2, 2) // decoded lists (patches) 0..L entries, maps 0..2, nesting 2
	vR = &vRef{p: p}
	tv := &vTimeValidator{fail: VNondetBool("timeValidator.fails")}
	ov := &vOriginValidator{fail: VNondetBool("originValidator.fails")}
	parser := New(p, WithAnchorTimeValidator(tv), WithAnchorOriginValidator(ov))
	buf := VNondetBytes("request")
	kind := VNondetRange("optype", 0, 3)
	typ := []operation.Type{operation.TypeCreate, operation.TypeUpdate, operation.TypeRecover, operation.TypeDeactivate}[kind]

	// the request's "type" member selects the operation kind
	var sch operationSchema
	schemaErr := json.Unmarshal(buf, &sch)
	if schemaErr == nil {
		VAssume(sch.Operation == typ)
	}

	op, err := parser.ParseOperation("ns", buf, false) // REAL code

	sizeOK := VAnd(uint64(len(buf)) <= uint64(p.MaxOperationSize), int(p.MaxOperationSize) >= 0)
	want := VAnd(sizeOK, schemaErr == nil)
	r := vR
	if schemaErr == nil {
		switch typ {
		case operation.TypeCreate:
			var req model.CreateRequest
			if json.Unmarshal(buf, &req) != nil || req.SuffixData == nil {
				want = false
				break
			}
			sd := req.SuffixData
			ok := VAnd(r.mhOK(sd.RecoveryCommitment), r.mhOK(sd.DeltaHash), !ov.fail)
			if !ok {
				want = false
				break
			}
			if !r.deltaOK(req.Delta) {
				want = false
				break
			}
			want = VAnd(want, VUFBool("mh.wellformed", sd.DeltaHash), VUFBool("mh.matches", vModelID(req.Delta), sd.DeltaHash),
				req.Delta.UpdateCommitment != sd.RecoveryCommitment,
				len(p.MultihashAlgorithms) > 0 && VUFBool("mh.supported", uint64(p.MultihashAlgorithms[0])))
		case operation.TypeUpdate:
			var req model.UpdateRequest
			if json.Unmarshal(buf, &req) != nil {
				want = false
				break
			}
			if !VAnd(req.DidSuffix != "", req.SignedData != "", r.mhOK(req.RevealValue)) || !r.headersOK(req.SignedData) {
				want = false
				break
			}
			var sd model.UpdateSignedDataModel
			if json.Unmarshal(vPayload(req.SignedData), &sd) != nil || !r.keyOK(sd.UpdateKey) || !r.mhOK(sd.DeltaHash) || tv.fail {
				want = false
				break
			}
			if !r.deltaOK(req.Delta) {
				want = false
				break
			}
			want = VAnd(want, r.freshCommitment(sd.UpdateKey, req.Delta.UpdateCommitment), r.revealMatches(sd.UpdateKey, req.RevealValue))
		case operation.TypeRecover:
			var req model.RecoverRequest
			if json.Unmarshal(buf, &req) != nil {
				want = false
				break
			}
			if !VAnd(req.DidSuffix != "", req.SignedData != "", r.mhOK(req.RevealValue)) || !r.headersOK(req.SignedData) {
				want = false
				break
			}
			var sd model.RecoverSignedDataModel
			if json.Unmarshal(vPayload(req.SignedData), &sd) != nil || !r.keyOK(sd.RecoveryKey) {
				want = false
				break
			}
			if !VAnd(r.mhOK(sd.RecoveryCommitment), r.mhOK(sd.DeltaHash), r.freshCommitment(sd.RecoveryKey, sd.RecoveryCommitment), !ov.fail, !tv.fail) {
				want = false
				break
			}
			if !r.deltaOK(req.Delta) {
				want = false
				break
			}
			want = VAnd(want, req.Delta.UpdateCommitment != sd.RecoveryCommitment, r.revealMatches(sd.RecoveryKey, req.RevealValue))
		default:
			var req model.DeactivateRequest
			if json.Unmarshal(buf, &req) != nil {
				want = false
				break
			}
			if !VAnd(req.DidSuffix != "", req.SignedData != "", r.mhOK(req.RevealValue)) || !r.headersOK(req.SignedData) {
				want = false
				break
			}
			var sd model.DeactivateSignedDataModel
			if json.Unmarshal(vPayload(req.SignedData), &sd) != nil || !r.keyOK(sd.RecoveryKey) {
				want = false
				break
			}
			want = VAnd(want, sd.DidSuffix == req.DidSuffix, r.revealMatches(sd.RecoveryKey, req.RevealValue), !tv.fail)
		}
	}
	if err == nil {
		VCover("accepted")
		VAssert("C10/accepted-type", op.Type == typ)
	} else {
		VCover("rejected")
	}
	VAssert("C10/accepted-implies-every-rule", VImplies(err == nil, want))
	VAssert("C10/every-rule-implies-accepted", VImplies(want, err == nil))
}

func vPayload(s string) []byte {
	sig, err := internal.ParseJWS(s)
	if err != nil {
		return nil
	}
	return sig.Payload
}

// VHarness_C10_no_panic: every entry point of the parser answers arbitrary bytes (arbitrary decoded
// shapes: missing delta, missing suffix data, missing keys, headers of any JSON kind ...) with a value
// or an error; the engine reports any reachable nil dereference / index fault / failed assertion.
func VHarness_C10_no_panic() {
	var p protocol.Protocol
	vHavocProtocol(&p, 1)
	vInstallIntakeStubs()
	VHavocBounds(VBound("L", 1), 2, 2)
	parser := New(p)
	buf := VNondetBytes("request")
	switch VNondetRange("entry", 0, 3) {
	case 0:
		_, _ = parser.Parse("ns", buf)
		VCover("parse")
	case 1:
		_, _ = parser.ParseOperation("ns", buf, true)
		VCover("parse-batch")
	case 2:
		_, _ = parser.GetRevealValue(buf)
		VCover("reveal-value")
	default:
		_, _ = parser.GetCommitment(buf)
		VCover("next-commitment")
	}
}

// VHarness_C10_parse_did_no_panic: ParseDID on arbitrary namespace / DID strings.
func VHarness_C10_parse_did_no_panic() {
	var p protocol.Protocol
	vHavocProtocol(&p, 1)
	vInstallIntakeStubs()
	parser := New(p)
	ns, did := VNondetString("namespace"), VNondetString("did")
	VAssume(VAnd(len(ns) <= VBound("LEN", 6), len(did) <= 2*VBound("LEN", 6)))
	_, req, err := parser.ParseDID(ns, did)
	if err != nil {
		VCover("rejected")
	} else if req == nil {
		VCover("short-form")
	} else {
		VCover("long-form")
	}
}
