package batch

import (
	"github.com/trustbloc/logutil-go/pkg/log"

	"github.com/trustbloc/sidetree-core-go/pkg/api/operation"
	"github.com/trustbloc/sidetree-core-go/pkg/api/protocol"
	"github.com/trustbloc/sidetree-core-go/pkg/api/txn"
	"github.com/trustbloc/sidetree-core-go/pkg/batch/cutter"
	"github.com/trustbloc/sidetree-core-go/pkg/batch/opqueue"
)

// ---- harness world around the REAL Writer / BatchCutter / MemQueue ----

type vOpInfo struct {
	pv       uint64
	kind     int  // 0 included, 1 deferred once (then included), 2 expired
	seen     int  // times handed to the operation handler
	anchored int  // times part of a successfully written anchor
	expired  int
}

type vBatch struct {
	cls     []int // per tag: 0 included, 1 deferred, 2 expired (as the handler classified it in this batch)
	tags    []int
	pv      uint64
	ok      bool // anchor written
	handler bool // handler succeeded
}

type vBW struct {
	info        map[int]*vOpInfo
	maxOps      uint
	handlerFail []bool // per call
	anchorFail  []bool
	calls       int
	batches     []*vBatch
	queue       *opqueue.MemQueue
	injected    int
	inject      func() // concurrent submission hook (bounded-schedule harness)
}

var vB *vBW

func vTagOf(op *operation.QueuedOperation) int { return int(op.OperationRequest[0]) }

type vBWClient struct{}

func (vBWClient) Current() (protocol.Version, error)   { return vBWVersion{}, nil }
func (vBWClient) Get(uint64) (protocol.Version, error) { return vBWVersion{}, nil }

type vBWVersion struct{}

func (vBWVersion) Version() string                                   { return "1.0" }
func (vBWVersion) Protocol() protocol.Protocol                       { return protocol.Protocol{MaxOperationCount: vB.maxOps} }
func (vBWVersion) TransactionProcessor() protocol.TxnProcessor       { return nil }
func (vBWVersion) OperationParser() protocol.OperationParser         { return nil }
func (vBWVersion) OperationApplier() protocol.OperationApplier       { return nil }
func (vBWVersion) OperationHandler() protocol.OperationHandler       { return vBWHandler{} }
func (vBWVersion) OperationProvider() protocol.OperationProvider     { return nil }
func (vBWVersion) DocumentComposer() protocol.DocumentComposer       { return nil }
func (vBWVersion) DocumentValidator() protocol.DocumentValidator     { return nil }
func (vBWVersion) DocumentTransformer() protocol.DocumentTransformer { return nil }

type vBWHandler struct{}

func (vBWHandler) PrepareTxnFiles(ops []*operation.QueuedOperation) (*protocol.AnchoringInfo, error) {
	b := &vBatch{}
	vB.batches = append(vB.batches, b)
	for _, o := range ops {
		b.tags = append(b.tags, vTagOf(o))
	}
	call := vB.calls
	vB.calls++
	if call < len(vB.handlerFail) && vB.handlerFail[call] {
		return nil, VErr("cas write failed")
	}
	b.handler = true
	ai := &protocol.AnchoringInfo{AnchorString: "anchor"}
	for _, o := range ops {
		inf := vB.info[vTagOf(o)]
		inf.seen++
		switch {
		case inf.kind == 1 && inf.seen == 1:
			b.cls = append(b.cls, 1)
			ai.AdditionalOperations = append(ai.AdditionalOperations, o)
		case inf.kind == 2:
			b.cls = append(b.cls, 2)
			ai.ExpiredOperations = append(ai.ExpiredOperations, o)
		default:
			b.cls = append(b.cls, 0)
			ai.OperationReferences = append(ai.OperationReferences, &operation.Reference{UniqueSuffix: o.UniqueSuffix, Type: o.Type})
		}
	}
	return ai, nil
}

type vBWAnchor struct{}

func (vBWAnchor) WriteAnchor(anchor string, _ []*protocol.AnchorDocument, refs []*operation.Reference, pv uint64) error {
	b := vB.batches[len(vB.batches)-1]
	b.pv = pv
	call := vB.calls - 1
	if call < len(vB.anchorFail) && vB.anchorFail[call] {
		return VErr("anchor write failed")
	}
	b.ok = true
	for k, t := range b.tags {
		inf := vB.info[t]
		switch b.cls[k] {
		case 2:
			inf.expired++
		case 0:
			inf.anchored++
		}
	}
	return nil
}
func (vBWAnchor) Read(int) (bool, *txn.SidetreeTxn) { return false, nil }

type vBWContext struct{ q cutter.OperationQueue }

func (c vBWContext) Protocol() protocol.Client             { return vBWClient{} }
func (c vBWContext) Anchor() AnchorWriter                  { return vBWAnchor{} }
func (c vBWContext) OperationQueue() cutter.OperationQueue { return c.q }

func vQueued(tag int) *operation.QueuedOperation {
	return &operation.QueuedOperation{Type: operation.TypeUpdate, UniqueSuffix: "s", Namespace: "ns", OperationRequest: []byte{byte(tag)}}
}

func vNewWriter(q cutter.OperationQueue) *Writer {
	ctx := vBWContext{q}
	return &Writer{namespace: "ns", context: ctx, batchCutter: cutter.New(vBWClient{}, q), protocol: vBWClient{}, logger: log.New("verif")}
}

func vQueueTags(q *opqueue.MemQueue) []int {
	items, _ := q.Peek(q.Len())
	var out []int
	for _, it := range items {
		out = append(out, vTagOf(&it.QueuedOperation))
	}
	return out
}

// VHarness_C16_one_step: one processAvailable(force) from an ARBITRARY queue state (length 0..N,
// symbolic protocol versions, symbolic MaxOperationCount in 1..3), operation handler deferring /
// expiring / failing and anchor writes failing by symbolic choice. A step from any state covers runs of
// any length by induction (prose).
func VHarness_C16_one_step() {
	n := VNondetRange("queueLen", 0, VBound("N", 3))
	vB = &vBW{info: map[int]*vOpInfo{}, queue: &opqueue.MemQueue{}}
	vB.maxOps = uint(VNondetRange("maxOps", 1, VBound("MAXOPS", 2)))
	w := vNewWriter(vB.queue)
	var before []int
	for i := 0; i < n; i++ {
		pv := VNondetU64("pv")
		vB.info[i] = &vOpInfo{pv: pv, kind: VNondetRange("kind", 0, 2)}
		if err := w.Add(vQueued(i), pv); err != nil {
			VAssert("C16/add-accepted", false)
		}
		before = append(before, i)
	}
	for i := 0; i < n+2; i++ {
		vB.handlerFail = append(vB.handlerFail, VNondetBool("handlerFail"))
		vB.anchorFail = append(vB.anchorFail, VNondetBool("anchorFail"))
	}
	force := VNondetBool("force")

	w.processAvailable(force) // REAL code

	after := vQueueTags(vB.queue)
	// --- conservation: each operation is in exactly one place ---
	for _, t := range before {
		inQ := 0
		for _, a := range after {
			if a == t {
				inQ++
			}
		}
		inf := vB.info[t]
		VAssert("C16/conservation-none-lost-none-duplicated", inQ+inf.anchored+inf.expired == 1)
	}
	// --- batches: FIFO prefixes, size, single version, cut rule ---
	pos := 0 // position in the evolving queue (original order; deferred ones go to the tail)
	cur := append([]int(nil), before...)
	for bi, b := range vB.batches {
		VAssert("C16/batch-size-within-max", VAnd(len(b.tags) >= 1, uint(len(b.tags)) <= vB.maxOps))
		for k, t := range b.tags {
			if k < len(cur) {
				VAssert("C16/fifo-batch-is-queue-prefix", t == cur[k])
			} else {
				VAssert("C16/fifo-batch-is-queue-prefix", false)
			}
			VAssert("C16/batch-single-protocol-version", vB.info[t].pv == vB.info[b.tags[0]].pv)
		}
		if b.handler {
			VAssert("C16/batch-labelled-with-its-version", VOr(!b.ok && b.pv == 0 && false, b.pv == vB.info[b.tags[0]].pv))
		}
		if uint(len(b.tags)) < vB.maxOps {
			boundary := len(b.tags) < len(cur) && vB.info[cur[len(b.tags)]].pv != vB.info[b.tags[0]].pv
			VAssert("C16/short-batch-only-on-timeout-or-version-boundary", VOr(force, boundary))
			if boundary {
				VCover("version-boundary-cut")
			}
		}
		if !b.ok {
			VCover("failed-batch")
			// a failed batch goes back to the head in original order and processing stops
			VAssert("C16/failed-batch-is-last", bi == len(vB.batches)-1)
			VAssert("C16/failed-batch-back-at-head-in-order", len(after) == len(cur))
			for k := range cur {
				if k < len(after) {
					VAssert("C16/failed-batch-back-at-head-in-order", after[k] == cur[k])
				}
			}
			return
		}
		VCover("anchored-batch")
		// successful: remove the batch from the head, deferred operations re-queued at the tail
		rest := append([]int(nil), cur[len(b.tags):]...)
		for k, t := range b.tags {
			if b.cls[k] == 1 {
				VCover("deferred-requeued")
				rest = append(rest, t)
			}
		}
		cur = rest
		_ = pos
	}
	VAssert("C16/queue-after-is-remaining-in-order", len(after) == len(cur))
	for k := range cur {
		if k < len(after) {
			VAssert("C16/queue-after-is-remaining-in-order", after[k] == cur[k])
		}
	}
	if len(after) > 0 && len(vB.batches) == 0 {
		VCover("nothing-cut")
	}
}

// ---- bounded schedule with interleaved submissions ------------------------------------------

// vInjQueue wraps the REAL MemQueue; between any two queue method calls of the consumer (and around
// ack / nack) a concurrent Writer.Add may be scheduled: every interleaving of the mutex-atomic queue
// methods is a model of the symbolic schedule.
type vInjQueue struct{ q *opqueue.MemQueue }

func (w vInjQueue) Add(d *operation.QueuedOperation, pv uint64) (uint, error) { return w.q.Add(d, pv) }
func (w vInjQueue) Len() uint {
	vB.inject()
	return w.q.Len()
}
func (w vInjQueue) Peek(n uint) (operation.QueuedOperationsAtTime, error) {
	vB.inject()
	return w.q.Peek(n)
}
func (w vInjQueue) Remove(n uint) (operation.QueuedOperationsAtTime, func() uint, func(error), error) {
	vB.inject()
	ops, ack, nack, err := w.q.Remove(n)
	return ops, func() uint { vB.inject(); r := ack(); vB.inject(); return r }, func(e error) { vB.inject(); nack(e); vB.inject() }, err
}

// VHarness_C16_schedule: K scheduler steps, each a submission or a tick (forced or not), with up to
// INJ further submissions landing between the queue operations of the consumer and CAS / anchor
// failures placed symbolically; after a final failure-free forced drain every accepted operation
// has been anchored exactly once unless the handler expired it.
func VHarness_C16_schedule() {
	k := VBound("K", 3)
	budget := VBound("INJ", 1)
	vB = &vBW{info: map[int]*vOpInfo{}, queue: &opqueue.MemQueue{}}
	vB.maxOps = uint(VNondetRange("maxOps", 1, 2))
	w := vNewWriter(vInjQueue{vB.queue})
	next := 0
	var accepted []int
	submit := func() {
		t := next
		next++
		vB.info[t] = &vOpInfo{pv: 1, kind: VNondetRange("kind", 0, 2)}
		if err := w.Add(vQueued(t), 1); err == nil {
			accepted = append(accepted, t)
		}
	}
	vB.inject = func() {
		if vB.injected < budget && VNondetBool("inject") {
			vB.injected++
			VCover("interleaved-submission")
			submit()
		}
	}
	for i := 0; i < 2*k; i++ {
		vB.handlerFail = append(vB.handlerFail, VNondetBool("handlerFail"))
		vB.anchorFail = append(vB.anchorFail, VNondetBool("anchorFail"))
	}
	for i := 0; i < k; i++ {
		switch VNondetRange("step", 0, 2) {
		case 0:
			submit()
		case 1:
			w.processAvailable(false)
		default:
			w.processAvailable(true)
		}
	}
	// quiesce: no more submissions, no more failures
	vB.injected = budget
	vB.handlerFail, vB.anchorFail = nil, nil
	for i := 0; i < len(accepted)+2 && vB.queue.Len() > 0; i++ {
		w.processAvailable(true)
	}
	VAssert("C16/queue-drains", vB.queue.Len() == 0)
	for _, t := range accepted {
		inf := vB.info[t]
		VAssert("C16/accepted-anchored-exactly-once-unless-expired", inf.anchored+inf.expired == 1)
		if inf.kind == 2 {
			VAssert("C16/expired-never-anchored", inf.anchored == 0)
		} else {
			VAssert("C16/not-expired-is-anchored", inf.anchored == 1)
		}
	}
	if len(accepted) >= 2 {
		VCover("two-accepted")
	}
	for _, b := range vB.batches {
		if !b.ok {
			VCover("failure-then-recovered")
		}
	}
}
