package operationapplier

// verif:requires Applier.verifyAnchoringTimeRange

import "github.com/trustbloc/sidetree-core-go/pkg/api/protocol"

// vSpecUntil is the effective end of the window, straight from the property statement (C05 / DESIGN B.3).
func vSpecUntil(from, until int64, delta uint64) int64 {
	return VIteI64(VAnd(from != 0, until == 0), from+int64(delta), until)
}

func vHavocProtocol(p *protocol.Protocol) {
	p.GenesisTime = VNondetU64("p.GenesisTime")
	p.MaxOperationCount = VNondetUint("p.MaxOperationCount")
	p.MaxOperationSize = VNondetUint("p.MaxOperationSize")
	p.MaxOperationHashLength = VNondetUint("p.MaxOperationHashLength")
	p.MaxDeltaSize = VNondetUint("p.MaxDeltaSize")
	p.MaxCasURILength = VNondetUint("p.MaxCasURILength")
	p.CompressionAlgorithm = VNondetString("p.CompressionAlgorithm")
	p.MaxCoreIndexFileSize = VNondetUint("p.MaxCoreIndexFileSize")
	p.MaxProofFileSize = VNondetUint("p.MaxProofFileSize")
	p.MaxProvisionalIndexFileSize = VNondetUint("p.MaxProvisionalIndexFileSize")
	p.MaxChunkFileSize = VNondetUint("p.MaxChunkFileSize")
	p.MaxOperationTimeDelta = VNondetU64("p.MaxOperationTimeDelta")
	p.NonceSize = VNondetU64("p.NonceSize")
	p.MaxMemoryDecompressionFactor = VNondetUint("p.MaxMemoryDecompressionFactor")
}

// VHarness_C05_window: Applier.verifyAnchoringTimeRange == the reference window, for every value
// of every protocol parameter (so the window can depend on MaxOperationTimeDelta only).
func VHarness_C05_window() {
	var p protocol.Protocol
	vHavocProtocol(&p)
	from, until := VNondetI64("from"), VNondetI64("until")
	anchor := VNondetU64("anchor")
	// signed window values of either sign (a negative anchorFrom / anchorUntil is simply a window in the past)
	lim := int64(1) << 62
	VAssume(VAnd(from > -lim, from < lim, until > -lim, until < lim, anchor < uint64(lim), p.MaxOperationTimeDelta < uint64(lim)))
	a := &Applier{Protocol: p}
	got := a.verifyAnchoringTimeRange(from, until, anchor) == nil
	want := VOr(VAnd(from == 0, until == 0),
		VAnd(from <= int64(anchor), int64(anchor) <= vSpecUntil(from, until, p.MaxOperationTimeDelta)))
	if got {
		VCover("in-window")
	} else {
		VCover("out-of-window")
	}
	VAssert("C05/window-eq-spec", got == want)
}
