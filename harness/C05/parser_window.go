package operationparser

import (
	"github.com/trustbloc/sidetree-core-go/pkg/api/protocol"
	"github.com/trustbloc/sidetree-core-go/pkg/versions/1_0/model"
)

func vSpecUntil(from, until int64, delta uint64) int64 {
	return VIteI64(VAnd(from != 0, until == 0), from+int64(delta), until)
}

// VHarness_C05_intake_window: at intake (batch=false) the server-time validator receives exactly
// (anchorFrom, effective until) of the signed data, for update, recover and deactivate.
func VHarness_C05_intake_window() {
	var p protocol.Protocol
	vHavocProtocol(&p, VBound("nlist", 1))
	vInstallParserStubs()
	VStub("(*"+vMod+"versions/1_0/operationparser.Parser).ValidateDelta", func(_ *Parser, d *model.DeltaModel) error {
		if d == nil {
			return VErr("missing delta")
		}
		if VNondetBool("validateDelta.ok") {
			return nil
		}
		return VErr("invalid delta")
	})
	tv := &vTimeValidator{fail: VNondetBool("timeValidator.fails")}
	parser := New(p, WithAnchorTimeValidator(tv), WithAnchorOriginValidator(&vOriginValidator{}))
	req := VNondetBytes("request")
	var op *model.Operation
	var err error
	var sf, su int64
	switch VNondetRange("optype", 0, 2) {
	case 0:
		op, err = parser.ParseUpdateOperation(req, false)
		if err == nil {
			sd, e := parser.ParseSignedDataForUpdate(op.SignedData)
			VAssert("C05/signed-data-reparses", e == nil)
			sf, su = sd.AnchorFrom, sd.AnchorUntil
		}
	case 1:
		op, err = parser.ParseRecoverOperation(req, false)
		if err == nil {
			sd, e := parser.ParseSignedDataForRecover(op.SignedData)
			VAssert("C05/signed-data-reparses", e == nil)
			sf, su = sd.AnchorFrom, sd.AnchorUntil
		}
	default:
		op, err = parser.ParseDeactivateOperation(req, false)
		if err == nil {
			sd, e := parser.ParseSignedDataForDeactivate(op.SignedData)
			VAssert("C05/signed-data-reparses", e == nil)
			sf, su = sd.AnchorFrom, sd.AnchorUntil
		}
	}
	if tv.fail {
		VAssert("C05/validator-refusal-rejects", VOr(err != nil, len(vLog.timeValidator) == 0))
	}
	if err != nil {
		return
	}
	VCover("accepted")
	VAssert("C05/intake-validator-called-once", len(vLog.timeValidator) == 1)
	from, until := vLog.timeValidator[0][0], vLog.timeValidator[0][1]
	lim := int64(1) << 62
	VAssume(VAnd(sf > -lim, sf < lim, su > -lim, su < lim, p.MaxOperationTimeDelta < uint64(lim)))
	VAssert("C05/intake-from", from == sf)
	VAssert("C05/intake-until-eq-spec", until == vSpecUntil(sf, su, p.MaxOperationTimeDelta))
}
