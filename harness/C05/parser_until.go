package operationparser

// verif:requires Parser.getAnchorUntil

import (
	"github.com/trustbloc/sidetree-core-go/pkg/api/protocol"
)

// Kernel lemma about an unexported helper (left out, with a note, on a tree that no longer has the helper;
// VHarness_C05_intake_window decides the same clause through the real ParseOperation).
// VHarness_C05_parser_until: Parser.getAnchorUntil == the reference default, for every value of
// every protocol parameter.
func VHarness_C05_parser_until() {
	var p protocol.Protocol
	vHavocProtocol(&p, VBound("nlist", 1))
	from, until := VNondetI64("from"), VNondetI64("until")
	lim := int64(1) << 62
	VAssume(VAnd(from > -lim, from < lim, until > -lim, until < lim, p.MaxOperationTimeDelta < uint64(lim)))
	parser := &Parser{Protocol: p}
	got := parser.getAnchorUntil(from, until)
	if from != 0 && until == 0 {
		VCover("defaulted")
	} else {
		VCover("explicit")
	}
	VAssert("C05/parser-until-eq-spec", got == vSpecUntil(from, until, p.MaxOperationTimeDelta))
}

