package patchvalidator

import (
	"regexp"
	"strings"

	"github.com/trustbloc/sidetree-core-go/pkg/patch"
)

var vRefIDRegex = regexp.MustCompile("^[A-Za-z0-9_-]+$")

// ---- reference rules, written from the property statement (tables restated independently) ----

var vVerificationTypes = []string{"Bls12381G2Key2020", "JsonWebKey2020", "EcdsaSecp256k1VerificationKey2019", "Ed25519VerificationKey2018", "Ed25519VerificationKey2020"}
var vAgreementTypes = []string{"Bls12381G2Key2020", "JsonWebKey2020", "EcdsaSecp256k1VerificationKey2019", "X25519KeyAgreementKey2019"}
var vGeneralTypes = []string{"Bls12381G2Key2020", "JsonWebKey2020", "EcdsaSecp256k1VerificationKey2019", "Ed25519VerificationKey2018", "Ed25519VerificationKey2020", "X25519KeyAgreementKey2019"}
var vPurposes = []string{"authentication", "assertionMethod", "keyAgreement", "capabilityDelegation", "capabilityInvocation"}

func vOneOf(list []string, s string) bool {
	r := false
	for _, x := range list {
		r = VOr(r, x == s)
	}
	return r
}

// vURLSafe: 1..50 characters of [A-Za-z0-9_-], decided character by character by the solver through
// the engine's regular-expression support on a pattern written here (not read from the repo).
func vIDRule(id string) bool {
	return VAnd(len(id) >= 1, len(id) <= 50, vRefIDRegex.MatchString(id))
}

func vStr(v interface{}) (string, bool) {
	s, ok := v.(string)
	return s, ok
}

// vKeyRule states every rule a key entry of an accepted patch must satisfy.
func vKeyRule(label string, k map[string]interface{}) {
	idRaw, hasID := k["id"]
	typRaw, hasType := k["type"]
	VAssert(label+"/key-has-id-and-type", hasID && hasType)
	_, hasJwk := k["publicKeyJwk"]
	_, hasB58 := k["publicKeyBase58"]
	VAssert(label+"/key-exactly-one-key-material-member", hasJwk != hasB58)
	for name := range k {
		VAssert(label+"/key-no-other-member", VOr(name == "id", name == "type", name == "purposes", name == "publicKeyJwk", name == "publicKeyBase58"))
	}
	id, idIsStr := vStr(idRaw)
	VAssert(label+"/key-id-is-string", idIsStr)
	VAssert(label+"/key-id-1-50-url-safe", vIDRule(id))
	typ, _ := vStr(typRaw)
	purposesRaw, hasPurposes := k["purposes"]
	var purposes []string
	if arr, ok := purposesRaw.([]interface{}); ok {
		for _, e := range arr {
			if s, ok := e.(string); ok {
				purposes = append(purposes, s)
			}
		}
	}
	if hasPurposes {
		VAssert(label+"/key-purposes-non-empty-when-present", len(purposes) >= 1)
	}
	VAssert(label+"/key-at-most-five-purposes", len(purposes) <= 5)
	if len(purposes) == 0 {
		VAssert(label+"/key-type-allowed", vOneOf(vGeneralTypes, typ))
	}
	for _, pp := range purposes {
		VAssert(label+"/key-purpose-allowed", vOneOf(vPurposes, pp))
		if pp == "keyAgreement" {
			VAssert(label+"/key-type-allowed-for-purpose", vOneOf(vAgreementTypes, typ))
		} else {
			VAssert(label+"/key-type-allowed-for-purpose", vOneOf(vVerificationTypes, typ))
		}
	}
	// key material: a JWK with kty, crv and x, or (unless the type is JsonWebKey2020) a non-empty base58 string
	jwkOK := false
	if m, ok := k["publicKeyJwk"].(map[string]interface{}); ok {
		kty, _ := vStr(m["kty"])
		crv, _ := vStr(m["crv"])
		x, _ := vStr(m["x"])
		jwkOK = VAnd(kty != "", crv != "", x != "")
	}
	b58, _ := vStr(k["publicKeyBase58"])
	VAssert(label+"/key-material-usable", VOr(jwkOK, VAnd(b58 != "", typ != "JsonWebKey2020")))
}

func vServiceRule(label string, s map[string]interface{}) {
	id, idIsStr := vStr(s["id"])
	VAssert(label+"/service-id-is-string", idIsStr)
	VAssert(label+"/service-id-1-50-url-safe", vIDRule(id))
	typ, _ := vStr(s["type"])
	VAssert(label+"/service-type-1-30-chars", VAnd(len(typ) >= 1, len(typ) <= 30))
	ep, has := s["serviceEndpoint"]
	VAssert(label+"/service-endpoint-present", has && ep != nil)
	switch e := ep.(type) {
	case string:
		VAssert(label+"/service-endpoint-valid-uri", VAnd(e != "", VUFBool("url.validRequestURI", e)))
	case []interface{}:
		for _, x := range e {
			if u, ok := x.(string); ok {
				VAssert(label+"/service-endpoint-valid-uri", VAnd(u != "", VUFBool("url.validRequestURI", u)))
			}
		}
	}
}

func vUniqueIDs(label string, entries []interface{}) {
	var ids []string
	for _, e := range entries {
		m, ok := e.(map[string]interface{})
		if !ok {
			continue
		}
		id, _ := vStr(m["id"])
		for _, prev := range ids {
			VAssert(label+"/ids-unique-within-patch", id != prev)
		}
		ids = append(ids, id)
	}
}

func vPointerFree(p string) bool {
	return VAnd(!strings.HasPrefix(p, "/service"), !strings.HasPrefix(p, "/publicKey"))
}

// ---- generators: symbolic patch values (every JSON kind reachable through typed havoc) ----

func vAnyJSON(name string) interface{} {
	var v interface{}
	VHavoc(name, &v)
	return v
}

// vKeyEntry: a key entry whose members are present or not by symbolic choice and have arbitrary JSON values.
func vKeyEntry(i int) map[string]interface{} {
	k := map[string]interface{}{}
	if VNondetBool("key.hasId") {
		k["id"] = vAnyJSON("key.id")
	}
	if VNondetBool("key.hasType") {
		k["type"] = VNondetString("key.type")
	}
	if VNondetBool("key.hasPurposes") {
		n := VNondetRange("key.npurposes", 0, VBound("PURPOSES", 2))
		arr := []interface{}{}
		for j := 0; j < n; j++ {
			arr = append(arr, VNondetString("key.purpose"))
		}
		k["purposes"] = arr
	}
	if VNondetBool("key.hasJwk") {
		if VNondetBool("key.jwkIsMap") {
			k["publicKeyJwk"] = map[string]interface{}{"kty": VNondetString("jwk.kty"), "crv": VNondetString("jwk.crv"), "x": VNondetString("jwk.x")}
		} else {
			k["publicKeyJwk"] = VNondetString("jwk.notamap")
		}
	}
	if VNondetBool("key.hasBase58") {
		k["publicKeyBase58"] = VNondetString("key.base58")
	}
	if VNondetBool("key.hasExtra") {
		k[VNondetString("key.extraName")] = "extra"
	}
	return k
}

// vSimpleKey: a well-formed key entry with a symbolic id (second entry, for the uniqueness rule).
func vSimpleKey() map[string]interface{} {
	return map[string]interface{}{"id": VNondetString("key2.id"), "type": "JsonWebKey2020",
		"publicKeyJwk": map[string]interface{}{"kty": "EC", "crv": "P-256", "x": "x"}}
}

func vServiceEntry() map[string]interface{} {
	s := map[string]interface{}{}
	if VNondetBool("svc.hasId") {
		s["id"] = vAnyJSON("svc.id")
	}
	if VNondetBool("svc.hasType") {
		s["type"] = VNondetString("svc.type")
	}
	switch VNondetRange("svc.endpointKind", 0, 3) {
	case 0:
	case 1:
		s["serviceEndpoint"] = VNondetString("svc.endpoint")
	case 2:
		n := VNondetRange("svc.nendpoints", 0, VBound("ENDPOINTS", 2))
		arr := []interface{}{}
		for j := 0; j < n; j++ {
			if VNondetBool("svc.endpointIsString") {
				arr = append(arr, VNondetString("svc.endpoint"))
			} else {
				arr = append(arr, map[string]interface{}{"origins": "o"})
			}
		}
		s["serviceEndpoint"] = arr
	default:
		s["serviceEndpoint"] = vAnyJSON("svc.endpointAny")
	}
	return s
}

func vSimpleService() map[string]interface{} {
	return map[string]interface{}{"id": VNondetString("svc2.id"), "type": "t", "serviceEndpoint": "http://ok"}
}

// VHarness_C18_add_keys: add-public-keys / replace with symbolic key entries.
func VHarness_C18_keys() {
	entries := []interface{}{vKeyEntry(0)}
	if VNondetBool("second-entry") {
		entries = append(entries, vSimpleKey())
	}
	var p patch.Patch
	viaReplace := VNondetBool("via-replace")
	if viaReplace {
		p = patch.Patch{"action": "replace", "document": map[string]interface{}{"publicKeys": entries}}
	} else {
		p = patch.Patch{"action": "add-public-keys", "publicKeys": entries}
	}
	err := Validate(p) // REAL code
	if err != nil {
		VCover("rejected")
		return
	}
	VCover("accepted")
	if viaReplace {
		VCover("accepted-via-replace")
	}
	vUniqueIDs("C18", entries)
	for _, e := range entries {
		vKeyRule("C18", e.(map[string]interface{}))
	}
}

// VHarness_C18_services: add-services / replace with symbolic service entries.
func VHarness_C18_services() {
	entries := []interface{}{vServiceEntry()}
	if VNondetBool("second-entry") {
		entries = append(entries, vSimpleService())
	}
	var p patch.Patch
	if VNondetBool("via-replace") {
		p = patch.Patch{"action": "replace", "document": map[string]interface{}{"services": entries}}
	} else {
		p = patch.Patch{"action": "add-services", "services": entries}
	}
	err := Validate(p) // REAL code
	if err != nil {
		VCover("rejected")
		return
	}
	VCover("accepted")
	vUniqueIDs("C18", entries)
	for _, e := range entries {
		vServiceRule("C18", e.(map[string]interface{}))
	}
}

// VHarness_C18_json_patch: an accepted ietf-json-patch can neither address, move nor remove the
// public-key or service sections: every pointer-valued member (path AND from) is outside them.
func VHarness_C18_json_patch() {
	n := VNondetRange("nops", 1, VBound("OPS", 2))
	var ops []interface{}
	for i := 0; i < n; i++ {
		op := map[string]interface{}{"op": VNondetString("op")}
		if VNondetBool("hasPath") {
			op["path"] = vAnyJSON("path")
		}
		if VNondetBool("hasFrom") {
			op["from"] = VNondetString("from")
		}
		ops = append(ops, op)
	}
	p := patch.Patch{"action": "ietf-json-patch", "patches": ops}
	err := Validate(p) // REAL code
	if err != nil {
		VCover("rejected")
		return
	}
	VCover("accepted")
	for _, o := range ops {
		m := o.(map[string]interface{})
		path, isStr := vStr(m["path"])
		VAssert("C18/json-patch-path-present-and-string", isStr)
		VAssert("C18/json-patch-path-outside-protected-sections", vPointerFree(path))
		if from, has := m["from"]; has {
			f, _ := vStr(from)
			VAssert("C18/json-patch-from-outside-protected-sections", vPointerFree(f))
		}
	}
}

// VHarness_C18_remove_and_aliases: remove-* patches carry only well-formed ids; also-known-as URIs parse and are unique.
func VHarness_C18_remove_and_aliases() {
	n := VNondetRange("n", 0, 2)
	var vals []interface{}
	for i := 0; i < n; i++ {
		vals = append(vals, VNondetString("value"))
	}
	kind := VNondetRange("kind", 0, 3)
	var p patch.Patch
	switch kind {
	case 0:
		p = patch.Patch{"action": "remove-public-keys", "ids": vals}
	case 1:
		p = patch.Patch{"action": "remove-services", "ids": vals}
	case 2:
		p = patch.Patch{"action": "add-also-known-as", "uris": vals}
	default:
		p = patch.Patch{"action": "remove-also-known-as", "uris": vals}
	}
	if Validate(p) != nil {
		VCover("rejected")
		return
	}
	VCover("accepted")
	VAssert("C18/remove-or-alias-list-non-empty", n >= 1)
	for i, v := range vals {
		s := v.(string)
		if kind <= 1 {
			VAssert("C18/removed-id-1-50-url-safe", vIDRule(s))
		} else {
			VAssert("C18/alias-uri-parses", VUFBool("url.parses", s))
			for _, w := range vals[:i] {
				VAssert("C18/alias-uris-unique", VUFString("url.normalised", s) != VUFString("url.normalised", w.(string)))
			}
		}
	}
}
