package doccomposer

import (
	"github.com/trustbloc/sidetree-core-go/pkg/document"
	"github.com/trustbloc/sidetree-core-go/pkg/patch"
)

var vActions = []string{"add-public-keys", "remove-public-keys", "add-services", "remove-services", "add-also-known-as", "remove-also-known-as", "replace", "ietf-json-patch"}
var vValueKeys = []string{"publicKeys", "ids", "services", "ids", "uris", "uris", "document", "patches"}

// VHarness_C18_apply_no_panic: ApplyPatches on an ARBITRARY JSON document (a superset of the reachable
// ones) and a patch of each action whose value is an ARBITRARY JSON value (a superset of what the
// validator accepts) returns a document or an error; any reachable panic is reported by the engine.
func VHarness_C18_apply_no_panic() {
	VHavocBounds(VBound("LIST", 2), VBound("DEPTH", 3), VBound("MAP", 2))
	// reachable documents are non-nil JSON objects (every applier result is make(...) or a composer result).
	// Each action reads only its own section, which holds an arbitrary JSON value; the other sections are fixed.
	k := VNondetRange("action", 0, 7)
	var section interface{}
	VHavoc("doc.section", &section)
	doc := document.Document{"publicKey": []interface{}{map[string]interface{}{"id": "k0"}}, "service": nil, "alsoKnownAs": []interface{}{"a0"}}
	switch k {
	case 0, 1:
		doc["publicKey"] = section
	case 2, 3:
		doc["service"] = section
	case 4, 5:
		doc["alsoKnownAs"] = section
	}
	var val interface{}
	VHavoc("value", &val)
	p := patch.Patch{"action": vActions[k], patch.Key(vValueKeys[k]): val}
	res, err := New().ApplyPatches(doc, []patch.Patch{p})
	if err != nil {
		VCover("error")
		VAssert("C18/error-returns-no-document", res == nil)
		return
	}
	VCover("applied")
	if k != 7 { // the result of the third-party JSON patch engine is opaque (outside the claim)
		VAssert("C18/success-returns-a-document", res != nil)
	}
}
