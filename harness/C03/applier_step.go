package operationapplier

import (
	"github.com/trustbloc/sidetree-core-go/pkg/api/operation"
	"github.com/trustbloc/sidetree-core-go/pkg/api/protocol"
	"github.com/trustbloc/sidetree-core-go/pkg/document"
	internal "github.com/trustbloc/sidetree-core-go/pkg/internal/jws"
	"github.com/trustbloc/sidetree-core-go/pkg/jws"
	"github.com/trustbloc/sidetree-core-go/pkg/patch"
	"github.com/trustbloc/sidetree-core-go/pkg/versions/1_0/model"
)

const vPkg = "github.com/trustbloc/sidetree-core-go/pkg/"

// vStepWorld: the harness parser / composer / primitive stubs around the REAL Applier, with every
// outcome symbolic, plus a log of the security-relevant primitive calls (used by C01's applier gate).
type vStepWorld struct {
	parseOK, signedOK, hashOK, sigOK, validOK, patchOK bool
	op       *model.Operation
	key      *jws.JWK
	signedDH string // delta hash in signed data (update, recover) / suffix data (create)
	signedRC string
	signedOrigin string
	signedSuffix string
	from, until  int64

	verifyCalls   []vVerifyCall
	hashCalls     []vHashCall
	validateCalls []*model.DeltaModel
	applyCalls    []vApplyCall
	parsedBatch   []bool
}

type vVerifyCall struct {
	jws string
	key *jws.JWK
}
type vHashCall struct {
	m  interface{}
	mh string
}
type vApplyCall struct {
	docTok string
	ptok   string
}

var vS *vStepWorld

func vDoc(tok string) document.Document { return document.Document{"t": tok} }
func vDocTok(d document.Document) string {
	if d == nil {
		return "<nil>"
	}
	s, _ := d["t"].(string)
	return s
}

func vPatchTok(ps []patch.Patch) string {
	if len(ps) == 0 {
		return "<none>"
	}
	s, _ := ps[0]["tok"].(string)
	return s
}

func (w *vStepWorld) parse(req []byte, batch bool) (*model.Operation, error) {
	w.parsedBatch = append(w.parsedBatch, batch)
	if !w.parseOK {
		return nil, VErr("parse failed")
	}
	return w.op, nil
}

func (w *vStepWorld) ValidateSuffixData(*model.SuffixDataModel) error { return nil }
func (w *vStepWorld) ValidateDelta(d *model.DeltaModel) error {
	w.validateCalls = append(w.validateCalls, d)
	if !w.validOK {
		return VErr("invalid delta")
	}
	return nil
}
func (w *vStepWorld) ParseCreateOperation(r []byte, b bool) (*model.Operation, error) { return w.parse(r, b) }
func (w *vStepWorld) ParseUpdateOperation(r []byte, b bool) (*model.Operation, error) { return w.parse(r, b) }
func (w *vStepWorld) ParseRecoverOperation(r []byte, b bool) (*model.Operation, error) {
	return w.parse(r, b)
}
func (w *vStepWorld) ParseDeactivateOperation(r []byte, b bool) (*model.Operation, error) {
	return w.parse(r, b)
}
func (w *vStepWorld) ParseSignedDataForUpdate(s string) (*model.UpdateSignedDataModel, error) {
	if !w.signedOK || s != w.op.SignedData {
		return nil, VErr("bad signed data")
	}
	return &model.UpdateSignedDataModel{UpdateKey: w.key, DeltaHash: w.signedDH, AnchorFrom: w.from, AnchorUntil: w.until}, nil
}
func (w *vStepWorld) ParseSignedDataForDeactivate(s string) (*model.DeactivateSignedDataModel, error) {
	if !w.signedOK || s != w.op.SignedData {
		return nil, VErr("bad signed data")
	}
	return &model.DeactivateSignedDataModel{DidSuffix: w.signedSuffix, RecoveryKey: w.key, AnchorFrom: w.from, AnchorUntil: w.until}, nil
}
func (w *vStepWorld) ParseSignedDataForRecover(s string) (*model.RecoverSignedDataModel, error) {
	if !w.signedOK || s != w.op.SignedData {
		return nil, VErr("bad signed data")
	}
	return &model.RecoverSignedDataModel{DeltaHash: w.signedDH, RecoveryKey: w.key, RecoveryCommitment: w.signedRC,
		AnchorOrigin: w.signedOrigin, AnchorFrom: w.from, AnchorUntil: w.until}, nil
}

// composer
func (w *vStepWorld) ApplyPatches(doc document.Document, patches []patch.Patch) (document.Document, error) {
	w.applyCalls = append(w.applyCalls, vApplyCall{vDocTok(doc), vPatchTok(patches)})
	if !w.patchOK {
		return nil, VErr("patch failed")
	}
	return vDoc(VUFString("applyPatches", vDocTok(doc), vPatchTok(patches))), nil
}

func vInstallStepStubs() {
	VStub(vPkg+"hashing.IsValidModelMultihash", func(m interface{}, mh string) error {
		vS.hashCalls = append(vS.hashCalls, vHashCall{m, mh})
		if !vS.hashOK {
			return VErr("supplied hash doesn't match original content")
		}
		return nil
	})
	VStub(vPkg+"internal/jws.VerifyJWS", func(s string, k *jws.JWK, _ ...internal.ParseOpt) (*internal.JSONWebSignature, error) {
		vS.verifyCalls = append(vS.verifyCalls, vVerifyCall{s, k})
		if !vS.sigOK {
			return nil, VErr("signature verification failed")
		}
		return &internal.JSONWebSignature{}, nil
	})
}

func vInWindow(from, until int64, anchor uint64, delta uint64) bool {
	eff := VIteI64(VAnd(from != 0, until == 0), from+int64(delta), until)
	return VOr(VAnd(from == 0, until == 0), VAnd(from <= int64(anchor), int64(anchor) <= eff))
}

type vPre struct {
	rm     *protocol.ResolutionModel
	docTok string
	hasDoc bool
}

// vSymState: an arbitrary pre-state (no history bound: any reachable or unreachable model).
func vSymState() *vPre {
	rm := &protocol.ResolutionModel{
		CreatedTime: VNondetU64("rm.Created"), UpdatedTime: VNondetU64("rm.Updated"),
		LastOperationTransactionTime: VNondetU64("rm.LastTime"), LastOperationTransactionNumber: VNondetU64("rm.LastNum"),
		LastOperationProtocolVersion: VNondetU64("rm.LastPV"),
		UpdateCommitment:             VNondetString("rm.UC"), RecoveryCommitment: VNondetString("rm.RC"),
		Deactivated: VNondetBool("rm.Deactivated"), AnchorOrigin: VNondetString("rm.Origin"),
		EquivalentReferences: []string{VNondetString("rm.Eq")}, CanonicalReference: VNondetString("rm.CanRef"),
		VersionID: VNondetString("rm.VersionID"),
	}
	pre := &vPre{rm: rm, docTok: "<nil>"}
	if VNondetBool("rm.hasDoc") {
		pre.hasDoc = true
		pre.docTok = VNondetString("rm.DocTok")
		rm.Doc = vDoc(pre.docTok)
	}
	return pre
}

func vStrs1(a []string) string {
	if len(a) != 1 {
		return "<len!=1>"
	}
	return a[0]
}

func vOrigin(o interface{}) string {
	s, ok := o.(string)
	if !ok {
		return "<not-a-string>"
	}
	return s
}

// VHarness_C03_apply_step: one call of the REAL Applier.Apply from an arbitrary pre-state, with
// every outcome of parsing, hashing, signature, delta validation, window and patching symbolic,
// equals the reference step function (DESIGN.md B.1) on every observed field. Being a single
// step from any state, it has no history bound. The call log doubles as C01's applier gate.
func VHarness_C03_apply_step() {
	k := VNondetRange("optype", 0, 3)
	typ := []operation.Type{operation.TypeCreate, operation.TypeUpdate, operation.TypeRecover, operation.TypeDeactivate}[k]
	w := &vStepWorld{
		parseOK: VNondetBool("parseOK"), signedOK: VNondetBool("signedOK"), hashOK: VNondetBool("hashOK"),
		sigOK: VNondetBool("sigOK"), validOK: VNondetBool("validOK"), patchOK: VNondetBool("patchOK"),
		key:      &jws.JWK{Kty: VNondetString("key.kty"), Crv: VNondetString("key.crv"), X: VNondetString("key.x")},
		signedDH: VNondetString("signed.deltaHash"), signedRC: VNondetString("signed.RC"),
		signedOrigin: VNondetString("signed.origin"), signedSuffix: VNondetString("signed.suffix"),
		from: VNondetI64("from"), until: VNondetI64("until"),
	}
	vS = w
	vInstallStepStubs()
	delta := &model.DeltaModel{UpdateCommitment: VNondetString("delta.UC"), Patches: []patch.Patch{{"tok": VNondetString("delta.patches")}}}
	ptok := vPatchTok(delta.Patches)
	sd := &model.SuffixDataModel{DeltaHash: w.signedDH, RecoveryCommitment: VNondetString("suffix.RC"), AnchorOrigin: VNondetString("suffix.origin")}
	w.op = &model.Operation{Type: typ, UniqueSuffix: VNondetString("op.suffix"), SignedData: VNondetString("op.signedData"),
		RevealValue: VNondetString("op.reveal"), Delta: delta}
	if typ == operation.TypeCreate {
		w.op.SuffixData = sd
	}
	if typ == operation.TypeDeactivate {
		w.op.Delta = nil
	}
	var p protocol.Protocol
	p.MaxOperationTimeDelta = VNondetU64("p.MaxOperationTimeDelta")
	p.MaxDeltaSize = VNondetUint("p.MaxDeltaSize")
	anchored := &operation.AnchoredOperation{Type: typ, UniqueSuffix: "s", OperationRequest: []byte("req"),
		TransactionTime: VNondetU64("op.time"), TransactionNumber: VNondetU64("op.number"), ProtocolVersion: VNondetU64("op.pv"),
		CanonicalReference: VNondetString("op.canref"), EquivalentReferences: []string{VNondetString("op.eqref")}}
	lim := int64(1) << 62
	VAssume(VAnd(w.from > -lim, w.from < lim, w.until >= 0, w.until < lim, anchored.TransactionTime < uint64(lim), p.MaxOperationTimeDelta < uint64(lim)))
	pre := vSymState()
	rm := pre.rm
	app := New(p, w, w)
	preUC, preRC, preDeact, preLast := rm.UpdateCommitment, rm.RecoveryCommitment, rm.Deactivated, rm.LastOperationTransactionTime

	got, err := app.Apply(anchored, rm) // REAL code under test

	win := vInWindow(w.from, w.until, anchored.TransactionTime, p.MaxOperationTimeDelta)
	hasDoc := pre.hasDoc
	// ---- reference step function B.1 ----
	var wantErr bool
	switch typ {
	case operation.TypeCreate:
		wantErr = VOr(hasDoc, !w.parseOK)
	case operation.TypeUpdate:
		wantErr = VOr(!hasDoc, !w.parseOK, !w.signedOK, !w.hashOK, !w.sigOK, !w.validOK)
	case operation.TypeRecover:
		wantErr = VOr(!hasDoc, !w.parseOK, !w.signedOK, !w.sigOK)
	default:
		wantErr = VOr(!hasDoc, !w.parseOK, !w.signedOK, w.signedSuffix != w.op.UniqueSuffix, !w.sigOK, !win)
	}
	VAssert("C03/step-error-iff-spec", (err != nil) == wantErr)
	if err != nil {
		VCover("ignored")
		VAssert("C03/step-error-returns-nil-state", got == nil)
		return
	}
	VCover("applied")
	// the input model is never modified
	VAssert("C03/step-pre-state-untouched", VAnd(vDocTok(rm.Doc) == pre.docTok, rm.Deactivated == preDeact,
		rm.UpdateCommitment == preUC, rm.RecoveryCommitment == preRC, rm.LastOperationTransactionTime == preLast))
	// every batch-mode parse
	for _, b := range w.parsedBatch {
		VAssert("C03/step-parses-in-batch-mode", b)
	}
	// common fields
	VAssert("C03/step-last-op", VAnd(got.LastOperationTransactionTime == anchored.TransactionTime,
		got.LastOperationTransactionNumber == anchored.TransactionNumber, got.LastOperationProtocolVersion == anchored.ProtocolVersion,
		got.VersionID == anchored.CanonicalReference))
	deltaOK := VAnd(w.hashOK, w.validOK)
	switch typ {
	case operation.TypeCreate:
		VAssert("C03/create-fixed-fields", VAnd(got.CreatedTime == anchored.TransactionTime, got.UpdatedTime == 0,
			got.RecoveryCommitment == sd.RecoveryCommitment, vOrigin(got.AnchorOrigin) == vOrigin(sd.AnchorOrigin),
			got.CanonicalReference == anchored.CanonicalReference, vStrs1(got.EquivalentReferences) == vStrs1(anchored.EquivalentReferences),
			!got.Deactivated))
		VAssert("C03/create-update-commitment", got.UpdateCommitment == VIteStr(deltaOK, delta.UpdateCommitment, ""))
		VAssert("C03/create-doc", vDocTok(got.Doc) == VIteStr(VAnd(deltaOK, w.patchOK), VUFString("applyPatches", "", ptok), ""))
		if deltaOK {
			VCover("create-delta-ok")
		} else {
			VCover("create-delta-bad")
		}
	case operation.TypeUpdate:
		VAssert("C03/update-carried", VAnd(got.CreatedTime == rm.CreatedTime, got.RecoveryCommitment == rm.RecoveryCommitment,
			vOrigin(got.AnchorOrigin) == vOrigin(rm.AnchorOrigin), got.CanonicalReference == rm.CanonicalReference,
			vStrs1(got.EquivalentReferences) == vStrs1(rm.EquivalentReferences), !got.Deactivated, got.UpdatedTime == anchored.TransactionTime))
		VAssert("C03/update-advances-update-commitment", got.UpdateCommitment == delta.UpdateCommitment)
		VAssert("C03/update-doc", vDocTok(got.Doc) == VIteStr(VAnd(win, w.patchOK), VUFString("applyPatches", pre.docTok, ptok), pre.docTok))
		if !win {
			VCover("update-outside-window")
		}
	case operation.TypeRecover:
		VAssert("C03/recover-fields", VAnd(got.CreatedTime == rm.CreatedTime, got.UpdatedTime == anchored.TransactionTime,
			got.RecoveryCommitment == w.signedRC, vOrigin(got.AnchorOrigin) == w.signedOrigin,
			got.CanonicalReference == anchored.CanonicalReference, vStrs1(got.EquivalentReferences) == vStrs1(anchored.EquivalentReferences),
			!got.Deactivated))
		VAssert("C03/recover-update-commitment", got.UpdateCommitment == VIteStr(deltaOK, delta.UpdateCommitment, ""))
		VAssert("C03/recover-doc", vDocTok(got.Doc) == VIteStr(VAnd(deltaOK, win, w.patchOK), VUFString("applyPatches", "", ptok), ""))
		if VAnd(deltaOK, !win) {
			VCover("recover-outside-window")
		}
	default:
		VAssert("C03/deactivate-clears", VAnd(got.Deactivated, got.UpdateCommitment == "", got.RecoveryCommitment == "", vDocTok(got.Doc) == "",
			got.CreatedTime == rm.CreatedTime, got.UpdatedTime == anchored.TransactionTime, vOrigin(got.AnchorOrigin) == vOrigin(rm.AnchorOrigin),
			got.CanonicalReference == rm.CanonicalReference, vStrs1(got.EquivalentReferences) == vStrs1(rm.EquivalentReferences)))
		VCover("deactivated")
	}
	// ---- C01 applier gate: acceptance implies the primitives were consulted with the right values ----
	if typ != operation.TypeCreate {
		ok := false
		for _, c := range w.verifyCalls {
			if VAnd(c.jws == w.op.SignedData, c.key == w.key) {
				ok = true
			}
		}
		VAssert("C01/accepted-implies-signature-verified-with-signed-key", ok)
	}
	if typ == operation.TypeUpdate {
		ok := false
		for _, c := range w.hashCalls {
			if d, isD := c.m.(*model.DeltaModel); isD && d == delta && c.mh == w.signedDH {
				ok = true
			}
		}
		VAssert("C01/update-accepted-implies-delta-hash-checked", ok)
		VAssert("C01/update-accepted-implies-delta-validated", len(w.validateCalls) > 0 && w.validateCalls[0] == delta)
	}
	// patches only ever applied to the right base document
	for _, c := range w.applyCalls {
		base := ""
		if typ == operation.TypeUpdate {
			base = pre.docTok
		}
		VAssert("C03/patches-applied-to-right-base", VAnd(c.docTok == base, c.ptok == ptok))
	}
}

