package processor

import (
	"github.com/trustbloc/sidetree-core-go/pkg/api/operation"
)

// VHarness_C03_resolve_vs_model: the real Resolve over N published operations in anchoring order
// equals the reference resolver (DESIGN.md B.2) on every field, error-ness included.
func VHarness_C03_resolve_vs_model() {
	n := VBound("N", 3)
	vWorldSetup(n, false)
	var ops []*operation.AnchoredOperation
	for i, r := range vW.recs {
		ops = append(ops, vAnchored(i, r, uint64(10+i), uint64(i), true))
	}
	got, err := vResolve(ops, nil)
	napplied := len(vW.okTags)
	want, ok := vRefResolve(ops)
	VAssert("C03/error-iff-model-error", (err != nil) == !ok)
	if err != nil || !ok {
		VCover("error")
		return
	}
	VCover("resolved")
	if got.Deactivated {
		VCover("deactivated")
	}
	if napplied >= 3 {
		VCover("three-applied")
	}
	VAssert("C03/state-eq-model", vSameState(got, want))
	VAssert("C03/terminates-within-bound", len(vW.applied) <= 4*n)
}
