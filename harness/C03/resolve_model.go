package processor

import (
	"github.com/trustbloc/sidetree-core-go/pkg/api/operation"
)

// VHarness_C03_resolve_vs_model: the real Resolve over N published operations equals the reference
// resolver (DESIGN.md B.2) on every field, error-ness included. Anchoring order is fixed by the (distinct)
// transaction times; the transaction numbers are arbitrary, so an ordering that consults them when the
// times already decide shows up as a different state.
func VHarness_C03_resolve_vs_model() {
	n := VBound("N", 3)
	vWorldSetup(n, false)
	var ops []*operation.AnchoredOperation
	for i, r := range vW.recs {
		ops = append(ops, vAnchored(i, r, uint64(10+i), VNondetU64("txn.number"), true))
	}
	got, err := vResolve(ops, nil)
	napplied := len(vW.okTags)
	want, ok := vRefResolve(ops)
	VAssert("C03/error-iff-model-error", (err != nil) == !ok)
	if err != nil || !ok {
		VCover("error")
		return
	}
	VCover("resolved")
	if got.Deactivated {
		VCover("deactivated")
	}
	if napplied >= 3 {
		VCover("three-applied")
	}
	VAssert("C03/state-eq-model", vSameState(got, want))
	VAssert("C03/terminates-within-bound", len(vW.applied) <= 4*n)
}
