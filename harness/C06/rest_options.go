package dochandler

import (
	"net/http"
	"net/url"

	"github.com/trustbloc/sidetree-core-go/pkg/document"
)

// VHarness_C06_rest_options: the REST resolve handler hands the cut point of the request on to the
// resolver: a versionId verbatim, a versionTime as text denoting the SAME INSTANT (verbatim, or any
// re-rendering that parses to the same instant), nothing when neither is given; both together, and only
// that or an unparsable time, are refused.
func VHarness_C06_rest_options() {
	vid, vt := VNondetString("versionId"), VNondetString("versionTime")
	hasID, hasT := VNondetBool("hasVersionId"), VNondetBool("hasVersionTime")
	q := url.Values{}
	if hasID {
		q["versionId"] = []string{vid}
	} else {
		vid = ""
	}
	if hasT {
		q["versionTime"] = []string{vt}
	} else {
		vt = ""
	}
	VStub("(*net/url.URL).Query", func(u *url.URL) url.Values { return q })
	req := &http.Request{URL: &url.URL{}}

	opts, err := getResolutionOptions(req) // REAL code

	if vid != "" && vt != "" {
		VCover("both-refused")
		VAssert("C06/rest-both-cut-points-refused", err != nil)
		return
	}
	if err != nil {
		VCover("refused")
		VAssert("C06/rest-refuses-only-an-unparsable-time", VAnd(vt != "", !VUFBool("time.parse.ok", vt)))
		return
	}
	ro, _ := document.GetResolutionOptions(opts...)
	if vid != "" {
		VCover("by-id")
	}
	VAssert("C06/rest-version-id-handed-on-verbatim", ro.VersionID == vid)
	if vt == "" {
		VAssert("C06/rest-no-time-invented", ro.VersionTime == "")
		return
	}
	VCover("by-time")
	same := VAnd(VUFBool("time.parse.ok", vt), VUFBool("time.parse.ok", ro.VersionTime),
		VUFU64("time.parse.unix", ro.VersionTime) == VUFU64("time.parse.unix", vt))
	VAssert("C06/rest-version-time-denotes-the-same-instant", VOr(ro.VersionTime == vt, same))
}
