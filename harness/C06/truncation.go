package processor

import (
	"time"

	"github.com/trustbloc/sidetree-core-go/pkg/api/operation"
	"github.com/trustbloc/sidetree-core-go/pkg/document"
)

// vUnixOf is the instant an RFC 3339 string denotes (time.Parse is replaced by the uninterpreted
// pair time.parse.ok / time.parse.unix under the engine).
func vUnixOf(s string) int64 { return int64(VUFU64("time.parse.unix", s)) }

// vTimeText: the text handed to the code under test — the abstract string under the engine, a real
// RFC 3339 rendering of the same instant natively.
func vTimeText(s string) string {
	if VSymbolic() {
		return s
	}
	return time.Unix(vUnixOf(s), 0).UTC().Format(time.RFC3339)
}

// vTimeInRange: instants RFC 3339 can spell (years 0..9999), so that witnesses replay natively.
func vTimeInRange(s string) bool {
	u := vUnixOf(s)
	return VAnd(u > -(int64(1) << 35), u < (int64(1) << 37))
}

// VHarness_C06_filter_time: filterOpsByVersionTime keeps exactly the operations anchored at or
// before T, in order; error iff none (or T unparsable).
func VHarness_C06_filter_time() {
	n := VNondetRange("n", 0, VBound("N", 3))
	var ops []*operation.AnchoredOperation
	for i := 0; i < n; i++ {
		ops = append(ops, &operation.AnchoredOperation{TransactionTime: VNondetU64("time"), OperationRequest: []byte{byte(i)}})
	}
	ts := VNondetString("versionTime")
	if VSymbolic() && !VUFBool("time.parse.ok", ts) {
		_, err := filterOpsByVersionTime(ops, ts)
		VAssert("C06/unparsable-time-is-error", err != nil)
		return
	}
	VAssume(vTimeInRange(ts))
	got, err := filterOpsByVersionTime(ops, vTimeText(ts))
	T := vUnixOf(ts)
	var want []*operation.AnchoredOperation
	for _, o := range ops {
		if T >= 0 && o.TransactionTime <= uint64(T) {
			want = append(want, o)
		}
	}
	if len(want) == 0 {
		VCover("none-selected")
		VAssert("C06/time-before-first-operation-is-error", err != nil)
		return
	}
	VCover("some-selected")
	VAssert("C06/filter-time-no-error", err == nil)
	VAssert("C06/filter-time-count", len(got) == len(want))
	for i := range want {
		if i < len(got) {
			VAssert("C06/filter-time-exact-order", got[i] == want[i])
		}
	}
}

// VHarness_C06_filter_id: filterOpsByVersionID returns the prefix through the first operation whose
// canonical reference is V; error iff absent.
func VHarness_C06_filter_id() {
	n := VNondetRange("n", 0, VBound("N", 3))
	var ops []*operation.AnchoredOperation
	for i := 0; i < n; i++ {
		ops = append(ops, &operation.AnchoredOperation{CanonicalReference: VNondetString("ref"), OperationRequest: []byte{byte(i)}})
	}
	v := VNondetString("versionId")
	got, err := filterOpsByVersionID(ops, v)
	idx := -1
	for i, o := range ops {
		if o.CanonicalReference == v {
			idx = i
			break
		}
	}
	if idx < 0 {
		VCover("absent")
		VAssert("C06/unknown-version-id-is-error", err != nil)
		return
	}
	VCover("present")
	VAssert("C06/filter-id-no-error", err == nil)
	VAssert("C06/filter-id-prefix-length", len(got) == idx+1)
	for i := 0; i <= idx && i < len(got); i++ {
		VAssert("C06/filter-id-exact-prefix", got[i] == ops[i])
	}
}

// VHarness_C06_truncation: real Resolve at a version time / version id equals the real Resolve of
// the history truncated by the harness (operations anchored later are arbitrary and present only in
// the first run).
func VHarness_C06_truncation() {
	n := VBound("N", 3)
	vWorldSetup(n, true)
	vC06Truncation(n)
}

// VHarness_C06_truncation_chain: the same relation one operation deeper on chain-shaped histories
// (create followed by update / recover operations only).
func VHarness_C06_truncation_chain() {
	n := VBound("N", 4)
	vWorldSetupTypes(n, true, 1, 2)
	vC06Truncation(n)
}

func vC06Truncation(n int) {
	var ops []*operation.AnchoredOperation
	for i, r := range vW.recs {
		// anchoring order is fixed by the (distinct) transaction times; transaction numbers are arbitrary
		ops = append(ops, vAnchored(i, r, uint64(10+10*i), VNondetU64("txn.number"), true))
	}
	// store order: rotated, so that sorting matters
	rot := VNondetRange("rot", 0, n-1)
	store := append(append([]*operation.AnchoredOperation(nil), ops[rot:]...), ops[:rot]...)
	var trunc []*operation.AnchoredOperation
	var opt document.ResolutionOption
	if VNondetRange("mode", 0, 1) == 0 {
		ts := VNondetString("versionTime")
		VAssume(VAnd(ts != "", VUFBool("time.parse.ok", ts), vTimeInRange(ts))) // an empty option means "not set"
		T := vUnixOf(ts)
		for _, o := range ops {
			if T >= 0 && o.TransactionTime <= uint64(T) {
				trunc = append(trunc, o)
			}
		}
		opt = document.WithVersionTime(vTimeText(ts))
		VCover("by-time")
	} else {
		v := VNondetString("versionId")
		VAssume(v != "")
		idx := -1
		for i, o := range ops {
			if o.CanonicalReference == v {
				idx = i
			}
		}
		if idx >= 0 {
			trunc = ops[:idx+1]
		}
		opt = document.WithVersionID(v)
		VCover("by-id")
	}
	a, errA := vResolve(store, nil, opt)
	if len(trunc) == 0 {
		VCover("nothing-at-or-before")
		VAssert("C06/nothing-at-or-before-is-error", errA != nil)
		return
	}
	b, errB := vResolve(trunc, nil)
	VAssert("C06/same-error-as-truncated", (errA != nil) == (errB != nil))
	if errA != nil || errB != nil {
		return
	}
	VCover("resolved")
	if len(trunc) < n {
		VCover("later-operations-ignored")
	}
	VAssert("C06/historical-eq-truncated", vSameState(a, b))
}

