package processor

import (
	"github.com/trustbloc/sidetree-core-go/pkg/api/operation"
)

// VHarness_C01_unauthorised_no_effect: a history h of N operations (anchoring order concrete,
// everything else symbolic) and one extra operation u inserted at every position. u is constrained
// to be unauthorised; the real Resolve must return the same result with and without u.
func VHarness_C01_unauthorised_no_effect() {
	n := VBound("N", 2)
	vWorldSetup(n, true)
	vC01Metamorphic(n, VNondetRange("pos", 0, n), VNondetRange("ukind", 0, 3))
}

// VHarness_C01_unauthorised_in_chain: the same relation one operation deeper, on the histories where an
// unauthorised candidate sits among the candidates of a commitment chain: create followed by N-1
// update/recover operations, and an unauthorised update/recover inserted anywhere after the create.
func VHarness_C01_unauthorised_in_chain() {
	n := VBound("N", 3)
	if VBound("MIX", 0) == 1 {
		vWorldSetupTypes(n, true, 1, 2)
		vC01Metamorphic(n, VNondetRange("pos", 1, n), VNondetRange("ukind", 1, 2))
		return
	}
	// quick bound: the chain and the inserted operation are all updates or all recovers
	k := VNondetRange("kind", 1, 2)
	vWorldSetupTypes(n, true, k, k)
	vC01Metamorphic(n, VNondetRange("pos", 1, n), k)
}

func vC01Metamorphic(n, pos, ukind int) {
	u := vNewRec(vOpType(ukind))
	VAssume(vCommit(u.reveal) != "")
	ui := len(vW.recs)
	vW.recs = append(vW.recs, u)
	first := vW.recs[0]
	if u.typ == operation.TypeCreate {
		// a further create for the same DID: same suffix data (hence same parse outcome, recovery
		// commitment and anchor origin), any delta; anchored after the first create
		if pos == 0 {
			VAssume(false)
		}
		VAssume(VAnd(u.parseOK == first.parseOK, u.newRC == first.newRC, u.origin == first.origin))
		VCover("duplicate-create")
	} else {
		// fails the authorisation test: bad signature / unparsable / signed data unusable, or the
		// revealed key matches no commitment that ever is in force along h; an update whose delta does
		// not match its signed hash (altered payload) is ignored as well
		foreign := true
		for _, r := range vW.recs[:n] {
			foreign = VAnd(foreign, vCommit(u.reveal) != r.newRC, vCommit(u.reveal) != r.newUC)
		}
		bad := VOr(!u.sigOK, !u.parseOK, !u.signedOK, !u.commitOK, foreign)
		if u.typ == operation.TypeUpdate {
			bad = VOr(bad, !u.deltaOK)
		}
		VAssume(bad)
		VCover("unauthorised-op")
	}
	var h, hu []*operation.AnchoredOperation
	for i, r := range vW.recs[:n] {
		if i == pos {
			hu = append(hu, vAnchored(ui, u, uint64(5+10*i), 0, true))
		}
		op := vAnchored(i, r, uint64(10+10*i), 0, true)
		h = append(h, op)
		hu = append(hu, op)
	}
	if pos == n {
		hu = append(hu, vAnchored(ui, u, uint64(5+10*n), 0, true))
	}
	a, errA := vResolve(h, nil)
	b, errB := vResolve(hu, nil)
	VAssert("C01/same-error-with-and-without", (errA != nil) == (errB != nil))
	if errA != nil || errB != nil {
		VCover("both-error")
		return
	}
	VCover("both-resolve")
	VAssert("C01/unauthorised-operation-changes-nothing", vSameState(a, b))
}
