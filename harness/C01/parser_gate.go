package operationparser

import (
	"github.com/trustbloc/sidetree-core-go/pkg/api/protocol"
	"github.com/trustbloc/sidetree-core-go/pkg/jws"
	"github.com/trustbloc/sidetree-core-go/pkg/versions/1_0/model"
)

// VHarness_C01_parser_gate: in BOTH modes (intake and batch/resolution) an update, recover or
// deactivate request parses only if its reveal value was checked to be the hash of the key carried in
// ITS OWN signed data — the link between the unsigned reveal value the resolver matches against the
// commitment and the key the applier verifies the signature with — and a deactivate only if the signed
// suffix is the request's suffix.
func VHarness_C01_parser_gate() {
	var p protocol.Protocol
	vHavocProtocol(&p, 1)
	vInstallParserStubs()
	VHavocBounds(1, 2, 2)
	VStub("(*"+vMod+"versions/1_0/operationparser.Parser).ValidateDelta", func(_ *Parser, d *model.DeltaModel) error {
		if d == nil {
			return VErr("missing delta")
		}
		if VNondetBool("validateDelta.ok") {
			return nil
		}
		return VErr("invalid delta")
	})
	parser := New(p)
	req := VNondetBytes("request")
	batch := VNondetBool("batch")
	var op *model.Operation
	var err error
	var key *jws.JWK
	kind := VNondetRange("optype", 0, 2)
	switch kind {
	case 0:
		op, err = parser.ParseUpdateOperation(req, batch)
		if err == nil {
			sd, e := parser.ParseSignedDataForUpdate(op.SignedData)
			VAssert("C01/signed-data-reparses", e == nil)
			key = sd.UpdateKey
		}
	case 1:
		op, err = parser.ParseRecoverOperation(req, batch)
		if err == nil {
			sd, e := parser.ParseSignedDataForRecover(op.SignedData)
			VAssert("C01/signed-data-reparses", e == nil)
			key = sd.RecoveryKey
		}
	default:
		op, err = parser.ParseDeactivateOperation(req, batch)
		if err == nil {
			sd, e := parser.ParseSignedDataForDeactivate(op.SignedData)
			VAssert("C01/signed-data-reparses", e == nil)
			key = sd.RecoveryKey
			VAssert("C01/deactivate-signed-suffix-is-request-suffix", sd.DidSuffix == op.UniqueSuffix)
		}
	}
	if err != nil {
		VCover("rejected")
		return
	}
	if batch {
		VCover("accepted-batch-mode")
	} else {
		VCover("accepted-intake-mode")
	}
	checked := false
	for _, c := range vLog.validModelMH {
		if VAnd(c.ok, c.modelID == vJWKID(key), c.mh == op.RevealValue) {
			checked = true
		}
	}
	VAssert("C01/accepted-implies-reveal-value-is-hash-of-signed-key", checked)
}
