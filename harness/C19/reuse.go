package didtransformer

import (
	"github.com/trustbloc/sidetree-core-go/pkg/api/protocol"
	"github.com/trustbloc/sidetree-core-go/pkg/document"
)

// VHarness_C19_transformer_reuse: a Transformer is shared by all resolutions; transforming a second
// document must leave the result of the first untouched (its @context in particular: the projection of
// one resolved state may not depend on another).
func VHarness_C19_transformer_reuse() {
	vInstallTransformerStubs()
	nctx := VNondetRange("methodContexts", 0, 3)
	var mctx []string
	for i := 0; i < nctx; i++ {
		mctx = append(mctx, "https://method/ctx")
	}
	tr := New(WithMethodContext(mctx), WithBase(VNondetBool("base")))
	mk := func(typ, id string) *protocol.ResolutionModel {
		return &protocol.ResolutionModel{Doc: document.Document{"publicKey": []interface{}{map[string]interface{}{"id": id, "type": typ,
			"publicKeyJwk": map[string]interface{}{"kty": "EC", "crv": "P-256", "x": "x"}}}}}
	}
	info1 := protocol.TransformationInfo{"id": "did:a:1", "published": true}
	info2 := protocol.TransformationInfo{"id": "did:a:2", "published": true}
	r1, e1 := tr.TransformDocument(mk("JsonWebKey2020", "k1"), info1)
	VAssert("C19/first-transform-succeeds", e1 == nil)
	if e1 != nil {
		return
	}
	ctx1 := r1.Document["@context"].([]interface{})
	n1 := len(ctx1)
	last1, _ := ctx1[n1-1].(string)
	r2, e2 := tr.TransformDocument(mk("EcdsaSecp256k1VerificationKey2019", "k2"), info2)
	VAssert("C19/second-transform-succeeds", e2 == nil)
	if e2 != nil {
		return
	}
	VCover("two-transforms")
	after := r1.Document["@context"].([]interface{})
	lastAfter, _ := after[len(after)-1].(string)
	VAssert("C19/first-result-context-untouched-by-second-transform", VAnd(len(after) == n1, lastAfter == last1, last1 == "https://w3id.org/security/suites/jws-2020/v1"))
	ctx2 := r2.Document["@context"].([]interface{})
	last2, _ := ctx2[len(ctx2)-1].(string)
	VAssert("C19/second-result-has-its-own-key-context", last2 == "https://w3id.org/security/suites/secp256k1-2019/v1")
}
