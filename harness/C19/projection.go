package didtransformer

import (
	"crypto/ed25519"

	"github.com/trustbloc/sidetree-core-go/pkg/api/protocol"
	"github.com/trustbloc/sidetree-core-go/pkg/document"
	"github.com/trustbloc/sidetree-core-go/pkg/jws"
)

const vPkgPath = "github.com/trustbloc/sidetree-core-go/pkg/"

type vKey struct {
	id, typ  string
	purposes []string
	material int // 0 jwk, 1 base58, 2 multibase, 3 none
	jwkX     string
	b58, mb  string
	edFails  bool
}

var vTypes = []string{"Bls12381G2Key2020", "JsonWebKey2020", "EcdsaSecp256k1VerificationKey2019", "Ed25519VerificationKey2018", "Ed25519VerificationKey2020", "X25519KeyAgreementKey2019", "SomeUnknownKeyType"}
var vCtxOf = map[string]string{
	"Bls12381G2Key2020":                 "https://w3id.org/security/suites/bls12381-2020/v1",
	"JsonWebKey2020":                    "https://w3id.org/security/suites/jws-2020/v1",
	"EcdsaSecp256k1VerificationKey2019": "https://w3id.org/security/suites/secp256k1-2019/v1",
	"Ed25519VerificationKey2018":        "https://w3id.org/security/suites/ed25519-2018/v1",
	"Ed25519VerificationKey2020":        "https://w3id.org/security/suites/ed25519-2020/v1",
	"X25519KeyAgreementKey2019":         "https://w3id.org/security/suites/x25519-2019/v1",
}

// vMirrorCtxOf: a caller-configured key-context map (WithKeyContext) that differs from the built-in one for
// every type: what is emitted must follow the configured map, and nothing else may depend on it.
var vMirrorCtxOf = map[string]string{
	"Bls12381G2Key2020":                 "https://mirror.example/bls12381-2020/v1",
	"JsonWebKey2020":                    "https://mirror.example/jws-2020/v1",
	"EcdsaSecp256k1VerificationKey2019": "https://mirror.example/secp256k1-2019/v1",
	"Ed25519VerificationKey2018":        "https://mirror.example/ed25519-2018/v1",
	"Ed25519VerificationKey2020":        "https://mirror.example/ed25519-2020/v1",
	"X25519KeyAgreementKey2019":         "https://mirror.example/x25519-2019/v1",
}
var vPurposeNames = []string{"authentication", "assertionMethod", "keyAgreement", "capabilityDelegation", "capabilityInvocation", "someOtherPurpose"}

func vInstallTransformerStubs() {
	VStub(vPkgPath+"internal/jws.GetED25519PublicKey", func(k *jws.JWK) (ed25519.PublicKey, error) {
		if VUFBool("ed25519.jwkInvalid", k.X) {
			return nil, VErr("unexpected public key type for ed25519")
		}
		return ed25519.PublicKey(VUFString("ed25519.bytes", k.Kty, k.Crv, k.X, k.Y)), nil
	})
	VStub("github.com/btcsuite/btcutil/base58.Encode", func(b []byte) string { return VUFString("base58", string(b)) })
	VStub("github.com/multiformats/go-multibase.Encode", func(base int32, b []byte) (string, error) {
		return VUFString("multibase58btc", string(b)), nil
	})
}

func vStrOf(v interface{}) (string, bool) { s, ok := v.(string); return s, ok }

// VHarness_C19_projection: REAL Transformer.TransformDocument on a symbolic internal document
// equals an independent projection written from the property statement.
func VHarness_C19_keys()     { vProjection(0) }
func VHarness_C19_services() { vProjection(1) }
func VHarness_C19_metadata() { vProjection(2) }

// pick returns a symbolic choice in the part of the state the harness focuses on and a fixed value elsewhere.
func pickRange(on bool, name string, lo, hi, fixed int) int {
	if on {
		return VNondetRange(name, lo, hi)
	}
	return fixed
}

func pickBool(on bool, name string, fixed bool) bool {
	if on {
		return VNondetBool(name)
	}
	return fixed
}

func vProjection(mode int) {
	vInstallTransformerStubs()
	nk := pickRange(mode == 0, "keys", 0, VBound("KEYS", 2), 1)
	var keys []*vKey
	var pkSection []interface{}
	for i := 0; i < nk; i++ {
		k := &vKey{id: VNondetString("key.id"), typ: vTypes[pickRange(mode == 0, "key.type", 0, 6, 1)], material: pickRange(mode == 0, "key.material", 0, 3, 0)}
		np := pickRange(mode == 0, "key.npurposes", 0, VBound("PURPOSES", 2), 1)
		var ps []interface{}
		for j := 0; j < np; j++ {
			p := vPurposeNames[pickRange(mode == 0, "key.purpose", 0, 5, 0)]
			k.purposes = append(k.purposes, p)
			ps = append(ps, p)
		}
		m := map[string]interface{}{"id": k.id, "type": k.typ}
		if np > 0 {
			m["purposes"] = ps
		}
		switch k.material {
		case 0:
			k.jwkX = VNondetString("jwk.x")
			m["publicKeyJwk"] = map[string]interface{}{"kty": "OKP", "crv": "Ed25519", "x": k.jwkX}
		case 1:
			k.b58 = VNondetString("key.base58")
			VAssume(k.b58 != "")
			m["publicKeyBase58"] = k.b58
		case 2:
			k.mb = VNondetString("key.multibase")
			VAssume(k.mb != "")
			m["publicKeyMultibase"] = k.mb
		}
		keys = append(keys, k)
		pkSection = append(pkSection, m)
	}
	ns := pickRange(mode == 1, "services", 0, VBound("SERVICES", 2), 0)
	type vSvc struct{ id, typ, ep, extra string }
	var svcs []vSvc
	var svcSection []interface{}
	for i := 0; i < ns; i++ {
		s := vSvc{VNondetString("svc.id"), VNondetString("svc.type"), VNondetString("svc.endpoint"), VNondetString("svc.extra")}
		svcs = append(svcs, s)
		svcSection = append(svcSection, map[string]interface{}{"id": s.id, "type": s.typ, "serviceEndpoint": s.ep, "recipientKeys": s.extra})
	}
	na := pickRange(mode == 1, "aliases", 0, 2, 0)
	var aliases []string
	var akaSection []interface{}
	for i := 0; i < na; i++ {
		a := VNondetString("alias")
		aliases = append(aliases, a)
		akaSection = append(akaSection, a)
	}
	doc := document.Document{}
	if nk > 0 {
		doc["publicKey"] = pkSection
	}
	if ns > 0 {
		doc["service"] = svcSection
	}
	if na > 0 {
		doc["alsoKnownAs"] = akaSection
	}
	rm := &protocol.ResolutionModel{Doc: doc, RecoveryCommitment: "rc", UpdateCommitment: "uc", VersionID: "v1", CreatedTime: 5, UpdatedTime: 7, AnchorOrigin: VNondetString("rm.origin")}
	if mode == 2 {
		rm.RecoveryCommitment, rm.UpdateCommitment, rm.VersionID = VNondetString("rm.RC"), VNondetString("rm.UC"), VNondetString("rm.versionId")
		rm.Deactivated, rm.CreatedTime, rm.UpdatedTime = VNondetBool("rm.deactivated"), VNondetU64("rm.created"), VNondetU64("rm.updated")
	}
	did := VNondetString("did")
	published := pickBool(mode == 2, "published", true)
	info := protocol.TransformationInfo{"id": did, "published": published}
	hasCanon := pickBool(mode == 2, "hasCanonicalId", true)
	canon, equiv := VNondetString("canonicalId"), VNondetString("equivalentId")
	if hasCanon {
		info["canonicalId"] = canon
		info["equivalentId"] = []string{equiv}
	}
	base := pickBool(mode != 2, "opt.base", false)
	var opts []Option
	opts = append(opts, WithBase(base))
	methodCtx := pickBool(mode == 1, "opt.methodContext", false)
	if methodCtx {
		opts = append(opts, WithMethodContext([]string{"https://method/ctx"}))
	}
	ctxOf := vCtxOf
	if pickBool(mode == 0, "opt.keyContext", false) {
		ctxOf = vMirrorCtxOf
		opts = append(opts, WithKeyContext(vMirrorCtxOf))
		VCover("custom-key-contexts")
	}
	tr := New(opts...)

	res, err := tr.TransformDocument(rm, info) // REAL code

	// ---- expected failure cases ----
	wantErr := false
	for _, k := range keys {
		if k.typ == "SomeUnknownKeyType" {
			wantErr = true
		}
		if k.material == 0 && (k.typ == "Ed25519VerificationKey2018" || k.typ == "Ed25519VerificationKey2020") && VUFBool("ed25519.jwkInvalid", k.jwkX) {
			wantErr = true
		}
		if wantErr {
			break
		}
	}
	// an unknown key type after an undecodable Ed25519 key: the first failure wins, error either way
	VAssert("C19/error-iff-unprojectable-key", (err != nil) == wantErr)
	if err != nil {
		VCover("error")
		return
	}
	VCover("projected")
	ext := res.Document
	objID := func(id string) string {
		if base {
			return "#" + id
		}
		return did + "#" + id
	}
	// ---- id, contexts ----
	gotID, _ := vStrOf(ext["id"])
	VAssert("C19/document-id", gotID == did)
	_, hasPK := ext["publicKey"]
	VAssert("C19/internal-publicKey-section-never-appears", !hasPK)
	var wantCtx []string
	wantCtx = append(wantCtx, "https://www.w3.org/ns/did/v1")
	if methodCtx {
		wantCtx = append(wantCtx, "https://method/ctx")
	}
	ctxArr, _ := ext["@context"].([]interface{})
	nScalarCtx := len(wantCtx)
	for _, k := range keys {
		c := ctxOf[k.typ]
		dup := false
		for _, w := range wantCtx[nScalarCtx:] {
			if w == c {
				dup = true
			}
		}
		if !dup {
			wantCtx = append(wantCtx, c)
		}
	}
	wantLen := len(wantCtx)
	if base {
		wantLen++
	}
	VAssert("C19/context-count", len(ctxArr) == wantLen)
	gi := 0
	for wi, w := range wantCtx {
		if base && wi == nScalarCtx {
			gi++ // the @base object sits after the method contexts
		}
		if gi < len(ctxArr) {
			s, _ := vStrOf(ctxArr[gi])
			VAssert("C19/context-entries", s == w)
		}
		gi++
	}
	// ---- verification methods ----
	vms, _ := ext["verificationMethod"].([]document.PublicKey)
	VAssert("C19/one-verification-method-per-key", len(vms) == len(keys))
	for i, k := range keys {
		if i >= len(vms) {
			break
		}
		vm := vms[i]
		id, _ := vStrOf(vm["id"])
		typ, _ := vStrOf(vm["type"])
		ctl, _ := vStrOf(vm["controller"])
		VAssert("C19/verification-method-id-type-controller", VAnd(id == objID(k.id), typ == k.typ, ctl == did))
		_, hasPurposes := vm["purposes"]
		VAssert("C19/verification-method-has-no-purposes-member", !hasPurposes)
		b58, hasB58 := vStrOf(vm["publicKeyBase58"])
		mb, hasMB := vStrOf(vm["publicKeyMultibase"])
		jwk, hasJwk := vm["publicKeyJwk"]
		edBytes := VUFString("ed25519.bytes", "OKP", "Ed25519", k.jwkX, "")
		switch {
		case k.material == 0 && k.typ == "Ed25519VerificationKey2018":
			VAssert("C19/ed25519-2018-jwk-reencoded-as-base58-of-same-bytes", VAnd(hasB58, b58 == VUFString("base58", edBytes), !hasJwk, !hasMB))
		case k.material == 0 && k.typ == "Ed25519VerificationKey2020":
			VAssert("C19/ed25519-2020-jwk-reencoded-as-multibase-of-same-bytes", VAnd(hasMB, mb == VUFString("multibase58btc", edBytes), !hasJwk, !hasB58))
		case k.material == 0:
			j, isJ := jwk.(document.JWK)
			x, _ := vStrOf(j["x"])
			VAssert("C19/jwk-carried-unchanged", VAnd(hasJwk, isJ, x == k.jwkX, !hasB58, !hasMB))
		case k.material == 1:
			VAssert("C19/base58-carried-unchanged", VAnd(hasB58, b58 == k.b58, !hasJwk, !hasMB))
		case k.material == 2:
			VAssert("C19/multibase-carried-unchanged", VAnd(hasMB, mb == k.mb, !hasJwk, !hasB58))
		}
	}
	// ---- relationship sections: exactly the keys that name the purpose, in order ----
	sections := []string{"authentication", "assertionMethod", "keyAgreement", "capabilityDelegation", "capabilityInvocation"}
	for _, sec := range sections {
		var want []string
		for _, k := range keys {
			for _, p := range k.purposes {
				if p == sec {
					want = append(want, objID(k.id))
				}
			}
		}
		got, _ := ext[sec].([]interface{})
		VAssert("C19/relationship-section-size", len(got) == len(want))
		for i := range want {
			if i < len(got) {
				s, _ := vStrOf(got[i])
				VAssert("C19/relationship-section-references", s == want[i])
			}
		}
		if len(want) > 0 {
			VCover("key-referenced")
		}
	}
	// ---- services ----
	gsv, _ := ext["service"].([]document.Service)
	VAssert("C19/every-service-listed", len(gsv) == len(svcs))
	for i, s := range svcs {
		if i >= len(gsv) {
			break
		}
		g := gsv[i]
		id, _ := vStrOf(g["id"])
		typ, _ := vStrOf(g["type"])
		ep, _ := vStrOf(g["serviceEndpoint"])
		ex, _ := vStrOf(g["recipientKeys"])
		VAssert("C19/service-qualified-id-and-members", VAnd(id == objID(s.id), typ == s.typ, ep == s.ep, ex == s.extra))
	}
	// ---- alsoKnownAs ----
	gaka, _ := ext["alsoKnownAs"].([]string)
	VAssert("C19/also-known-as-unchanged", len(gaka) == len(aliases))
	for i := range aliases {
		if i < len(gaka) {
			VAssert("C19/also-known-as-unchanged", gaka[i] == aliases[i])
		}
	}
	// ---- metadata ----
	md := res.DocumentMetadata
	method, _ := md["method"].(document.Metadata)
	rc, hasRC := vStrOf(method["recoveryCommitment"])
	uc, hasUC := vStrOf(method["updateCommitment"])
	pub, _ := method["published"].(bool)
	org, _ := vStrOf(method["anchorOrigin"])
	VAssert("C19/metadata-commitments-only-when-non-empty", VAnd(hasRC == (rm.RecoveryCommitment != ""), hasUC == (rm.UpdateCommitment != ""),
		VImplies(hasRC, rc == rm.RecoveryCommitment), VImplies(hasUC, uc == rm.UpdateCommitment)))
	VAssert("C19/metadata-published-and-origin", VAnd(pub == published, org == rm.AnchorOrigin.(string)))
	deact, hasDeact := md["deactivated"].(bool)
	VAssert("C19/metadata-deactivated-only-when-true", VAnd(hasDeact == rm.Deactivated, VImplies(hasDeact, deact)))
	cid, hasCID := vStrOf(md["canonicalId"])
	VAssert("C19/metadata-canonical-id-unaltered", VAnd(hasCID == hasCanon, VImplies(hasCanon, cid == canon)))
	eq, hasEq := md["equivalentId"].([]string)
	VAssert("C19/metadata-equivalent-id-unaltered", VAnd(hasEq == hasCanon, VImplies(hasCanon, len(eq) == 1 && eq[0] == equiv)))
	created, hasCreated := vStrOf(md["created"])
	VAssert("C19/metadata-created-only-when-published", VAnd(hasCreated == published, VImplies(published, created == VUFString("time.rfc3339", rm.CreatedTime))))
	vid, hasVid := vStrOf(md["versionId"])
	VAssert("C19/metadata-version-id", VAnd(hasVid == (rm.VersionID != ""), VImplies(hasVid, vid == rm.VersionID)))
	upd, hasUpd := vStrOf(md["updated"])
	VAssert("C19/metadata-updated-only-with-version-and-time", VAnd(hasUpd == VAnd(rm.VersionID != "", rm.UpdatedTime > 0),
		VImplies(hasUpd, upd == VUFString("time.rfc3339", rm.UpdatedTime))))
}
