package processor

import (
	"github.com/trustbloc/sidetree-core-go/pkg/api/operation"
	"github.com/trustbloc/sidetree-core-go/pkg/api/protocol"
	"github.com/trustbloc/sidetree-core-go/pkg/commitment"
	"github.com/trustbloc/sidetree-core-go/pkg/document"
	"github.com/trustbloc/sidetree-core-go/pkg/encoder"
	"github.com/trustbloc/sidetree-core-go/pkg/hashing"
)

// ---------------------------------------------------------------------------------------------
// Abstract operation records. The real OperationProcessor.Resolve runs over a store of
// AnchoredOperations whose request bytes are a one-byte tag; the harness parser and applier (plugged
// in through the repo's own protocol.Version interfaces) look the record up by that tag. The
// applier is the reference step function of DESIGN.md B.1 — the real Applier is tied to it by the
// C03 step lemma.
// ---------------------------------------------------------------------------------------------

type vRec struct {
	typ operation.Type
	// outcome of parsing in batch mode / of the individual checks of the applier
	// parseOK: parses in batch mode; signedOK: signed data parses; sigOK: signature (and, for
	// deactivate, signed suffix and window) good; deltaOK: delta matches its hash and is valid;
	// docOK: inside the window and the patches apply. (The per-check granularity of these outcomes is
	// the subject of the step lemma on the real Applier.)
	parseOK, signedOK, sigOK, deltaOK, docOK bool
	reveal                                   string // reveal value (abstract atom)
	commitOK                                 bool   // reveal value is a well-formed multihash
	newRC                                    string // create: suffix-data recovery commitment; recover: signed recovery commitment
	newUC                                    string // delta update commitment
	origin                                   string // anchor origin carried by create / recover
	patches                                  string // token naming the patch list
}

type vWorld struct {
	recs     []*vRec
	applied  []int    // tags passed to Apply, in call order
	okTags   []int    // tags whose Apply returned a state
	consumed []string // commitment in force (of the operation's own chain) when it was applied
	native   map[string]string
	maxApply int // > 0: Apply asserts that it is not called more often than this (termination guard)
}

var vW *vWorld

func vTag(op *operation.AnchoredOperation) int { return int(op.OperationRequest[0]) }

// vNewRec makes a record of the given type with every outcome and atom symbolic.
func vNewRec(typ operation.Type) *vRec {
	r := &vRec{typ: typ}
	r.parseOK = VNondetBool("parseOK")
	r.signedOK = VNondetBool("signedOK")
	r.sigOK = VNondetBool("sigOK")
	r.deltaOK = VNondetBool("deltaOK")
	r.docOK = VNondetBool("docOK")
	r.reveal = VNondetString("reveal")
	r.commitOK = VUFBool("commit.wellformed", r.reveal) // well-formedness is a function of the value
	r.newRC = VNondetString("newRC")
	r.newUC = VNondetString("newUC")
	r.origin = VNondetString("origin")
	r.patches = VNondetString("patches")
	return r
}

func vOpType(k int) operation.Type {
	switch k {
	case 0:
		return operation.TypeCreate
	case 1:
		return operation.TypeUpdate
	case 2:
		return operation.TypeRecover
	}
	return operation.TypeDeactivate
}

// vAnchored wraps record i as an anchored operation.
func vAnchored(i int, r *vRec, t, n uint64, published bool) *operation.AnchoredOperation {
	op := &operation.AnchoredOperation{Type: r.typ, UniqueSuffix: "suffix", OperationRequest: []byte{byte(i)},
		TransactionTime: t, TransactionNumber: n, ProtocolVersion: 0}
	if published {
		op.CanonicalReference = vRefName(i)
		op.EquivalentReferences = []string{"eq-" + vRefName(i)}
	}
	return op
}

func vRefName(i int) string {
	return "ref-" + string(rune('a'+i))
}

// ---- commitments -----------------------------------------------------------------------------

// vCommit is commitment(reveal). Under the engine GetCommitmentFromRevealValue is replaced by this
// uninterpreted function; natively the real function runs on a real multihash built from the atom.
func vCommit(reveal string) string { return VUFString("commit", reveal) }

func vInstallCommitStub() {
	VStub("github.com/trustbloc/sidetree-core-go/pkg/commitment.GetCommitmentFromRevealValue", func(rv string) (string, error) {
		if !VUFBool("commit.wellformed", rv) {
			return "", VErr("failed to get commitment from reveal value")
		}
		return vCommit(rv), nil
	})
}

// vRealRV turns an abstract reveal atom into a real encoded multihash (native replay only).
func vRealRV(r *vRec) string {
	if VSymbolic() {
		return r.reveal
	}
	if !r.commitOK {
		return "!not-a-multihash!" + r.reveal
	}
	mh, err := hashing.ComputeMultihash(18, []byte("reveal:"+r.reveal))
	if err != nil {
		panic(err)
	}
	return encoder.EncodeToString(mh)
}

// vC maps an abstract commitment string to the value used in the run: itself under the engine;
// natively the real commitment of the record whose abstract commitment it equals (so that the
// equality pattern of the solver's model is preserved), or itself when it matches none.
func vC(c string) string {
	if VSymbolic() || c == "" {
		return c
	}
	for _, r := range vW.recs {
		if r.commitOK && vCommit(r.reveal) == c {
			rc, err := commitment.GetCommitmentFromRevealValue(vRealRV(r))
			if err != nil {
				panic(err)
			}
			return rc
		}
	}
	return c
}

// ---- harness parser / applier / protocol ---------------------------------------------------

type vParser struct{}

func (vParser) Parse(string, []byte) (*operation.Operation, error) { return nil, VErr("unused") }
func (vParser) ParseDID(string, string) (string, []byte, error)    { return "", nil, VErr("unused") }

func (vParser) GetRevealValue(req []byte) (string, error) {
	r := vW.recs[int(req[0])]
	if r.typ == operation.TypeCreate || !r.parseOK {
		return "", VErr("get reveal value - parse operation error")
	}
	return vRealRV(r), nil
}

// vNext is the commitment the operation installs for its own chain.
func vNext(r *vRec) string {
	switch r.typ {
	case operation.TypeUpdate:
		return vC(r.newUC)
	case operation.TypeRecover:
		return vC(r.newRC)
	}
	return ""
}

func (vParser) GetCommitment(req []byte) (string, error) {
	r := vW.recs[int(req[0])]
	if !r.parseOK || r.typ == operation.TypeCreate {
		return "", VErr("get commitment - parse operation error")
	}
	if r.typ == operation.TypeRecover && !r.signedOK {
		return "", VErr("failed to parse signed data model for recover")
	}
	return vNext(r), nil
}

func vDoc(tok string) document.Document { return document.Document{"t": tok} }

func vDocTok(d document.Document) string {
	if d == nil {
		return "<nil>"
	}
	s, _ := d["t"].(string)
	return s
}

func vApplyTok(prev, patches string) string { return VUFString("applyPatches", prev, patches) }

// vStep is the reference step function (DESIGN.md B.1).
func vStep(op *operation.AnchoredOperation, r *vRec, rm *protocol.ResolutionModel) (*protocol.ResolutionModel, bool) {
	base := func() *protocol.ResolutionModel {
		return &protocol.ResolutionModel{
			Doc:                            vDoc(""),
			CreatedTime:                    rm.CreatedTime,
			UpdatedTime:                    op.TransactionTime,
			LastOperationTransactionTime:   op.TransactionTime,
			LastOperationTransactionNumber: op.TransactionNumber,
			LastOperationProtocolVersion:   op.ProtocolVersion,
			VersionID:                      op.CanonicalReference,
			CanonicalReference:             rm.CanonicalReference,
			EquivalentReferences:           rm.EquivalentReferences,
			RecoveryCommitment:             rm.RecoveryCommitment,
			AnchorOrigin:                   rm.AnchorOrigin,
			PublishedOperations:            rm.PublishedOperations,
			UnpublishedOperations:          rm.UnpublishedOperations,
		}
	}
	switch r.typ {
	case operation.TypeCreate:
		if rm.Doc != nil || !r.parseOK {
			return nil, false
		}
		res := base()
		res.CreatedTime = op.TransactionTime
		res.UpdatedTime = 0
		res.CanonicalReference = op.CanonicalReference
		res.EquivalentReferences = op.EquivalentReferences
		res.RecoveryCommitment = vC(r.newRC)
		res.AnchorOrigin = r.origin
		if r.deltaOK {
			res.UpdateCommitment = vC(r.newUC)
			if r.docOK {
				res.Doc = vDoc(vApplyTok("", r.patches))
			}
		}
		return res, true
	case operation.TypeUpdate:
		if rm.Doc == nil || !r.parseOK || !r.signedOK || !r.sigOK || !r.deltaOK {
			return nil, false
		}
		res := base()
		res.UpdateCommitment = vC(r.newUC)
		res.Doc = rm.Doc
		if r.docOK {
			res.Doc = vDoc(vApplyTok(vDocTok(rm.Doc), r.patches))
		}
		return res, true
	case operation.TypeRecover:
		if rm.Doc == nil || !r.parseOK || !r.signedOK || !r.sigOK {
			return nil, false
		}
		res := base()
		res.CanonicalReference = op.CanonicalReference
		res.EquivalentReferences = op.EquivalentReferences
		res.RecoveryCommitment = vC(r.newRC)
		res.AnchorOrigin = r.origin
		if r.deltaOK {
			res.UpdateCommitment = vC(r.newUC)
			if r.docOK {
				res.Doc = vDoc(vApplyTok("", r.patches))
			}
		}
		return res, true
	case operation.TypeDeactivate:
		if rm.Doc == nil || !r.parseOK || !r.signedOK || !r.sigOK {
			return nil, false
		}
		res := base()
		res.RecoveryCommitment = ""
		res.UpdateCommitment = ""
		res.Deactivated = true
		return res, true
	}
	return nil, false
}

type vApplier struct{}

func (vApplier) Apply(op *operation.AnchoredOperation, rm *protocol.ResolutionModel) (*protocol.ResolutionModel, error) {
	i := vTag(op)
	vW.applied = append(vW.applied, i)
	if vW.maxApply > 0 {
		// termination guard: a resolution that keeps applying operations (a commitment cycle that is
		// followed for ever) is reported here instead of running into the executor's unwind limit
		VAssert("C12/bounded-apply-calls", len(vW.applied) <= vW.maxApply)
	}
	res, ok := vStep(op, vW.recs[i], rm)
	if !ok {
		return nil, VErr("operation rejected by applier")
	}
	vW.okTags = append(vW.okTags, i)
	if op.Type == operation.TypeUpdate {
		vW.consumed = append(vW.consumed, rm.UpdateCommitment)
	} else {
		vW.consumed = append(vW.consumed, rm.RecoveryCommitment)
	}
	return res, nil
}

type vVersion struct{}

func (vVersion) Version() string                                   { return "1.0" }
func (vVersion) Protocol() protocol.Protocol                       { return protocol.Protocol{} }
func (vVersion) TransactionProcessor() protocol.TxnProcessor       { return nil }
func (vVersion) OperationParser() protocol.OperationParser         { return vParser{} }
func (vVersion) OperationApplier() protocol.OperationApplier       { return vApplier{} }
func (vVersion) OperationHandler() protocol.OperationHandler       { return nil }
func (vVersion) OperationProvider() protocol.OperationProvider     { return nil }
func (vVersion) DocumentComposer() protocol.DocumentComposer       { return nil }
func (vVersion) DocumentValidator() protocol.DocumentValidator     { return nil }
func (vVersion) DocumentTransformer() protocol.DocumentTransformer { return nil }

type vClient struct{}

func (vClient) Current() (protocol.Version, error)   { return vVersion{}, nil }
func (vClient) Get(uint64) (protocol.Version, error) { return vVersion{}, nil }

type vOpStore struct {
	ops []*operation.AnchoredOperation
	err bool
}

func (s *vOpStore) Get(string) ([]*operation.AnchoredOperation, error) {
	if s.err {
		return nil, VErr("uniqueSuffix not found in the store")
	}
	return append([]*operation.AnchoredOperation(nil), s.ops...), nil
}

// vResolve runs the REAL OperationProcessor.Resolve over the given published / unpublished operations.
func vResolve(pub, unpub []*operation.AnchoredOperation, opts ...document.ResolutionOption) (*protocol.ResolutionModel, error) {
	vW.applied, vW.okTags, vW.consumed = nil, nil, nil
	p := New("verif", &vOpStore{ops: pub}, vClient{}, WithUnpublishedOperationStore(&vOpStore{ops: unpub, err: len(unpub) == 0}))
	return p.Resolve("suffix", opts...)
}

// ---- state comparison ------------------------------------------------------------------------

func vStrSliceEq(a, b []string) bool {
	if len(a) != len(b) {
		return false
	}
	eq := true
	for i := range a {
		eq = VAnd(eq, a[i] == b[i])
	}
	return eq
}

func vOriginStr(o interface{}) string {
	s, _ := o.(string)
	return s
}

// vSameState compares everything some property observes in a resolution result.
func vSameState(a, b *protocol.ResolutionModel) bool {
	if a == nil || b == nil {
		return a == nil && b == nil
	}
	if (a.Doc == nil) != (b.Doc == nil) {
		return false
	}
	return VAnd(vDocTok(a.Doc) == vDocTok(b.Doc),
		a.UpdateCommitment == b.UpdateCommitment, a.RecoveryCommitment == b.RecoveryCommitment,
		a.Deactivated == b.Deactivated, vOriginStr(a.AnchorOrigin) == vOriginStr(b.AnchorOrigin),
		a.CreatedTime == b.CreatedTime, a.UpdatedTime == b.UpdatedTime,
		a.LastOperationTransactionTime == b.LastOperationTransactionTime,
		a.LastOperationTransactionNumber == b.LastOperationTransactionNumber,
		a.LastOperationProtocolVersion == b.LastOperationProtocolVersion,
		a.VersionID == b.VersionID, a.CanonicalReference == b.CanonicalReference,
		vStrSliceEq(a.EquivalentReferences, b.EquivalentReferences))
}

// ---- reference resolver (DESIGN.md B.2) -------------------------------------------------------

func vLexLessOp(a, b *operation.AnchoredOperation) bool {
	return VOr(a.TransactionTime < b.TransactionTime, VAnd(a.TransactionTime == b.TransactionTime, a.TransactionNumber < b.TransactionNumber))
}

// vSortLex: insertion sort by (time, number); stable.
func vSortLex(in []*operation.AnchoredOperation) []*operation.AnchoredOperation {
	out := append([]*operation.AnchoredOperation(nil), in...)
	for i := 1; i < len(out); i++ {
		for j := i; j > 0 && vLexLessOp(out[j], out[j-1]); j-- {
			out[j], out[j-1] = out[j-1], out[j]
		}
	}
	return out
}

func vIsPublished(op *operation.AnchoredOperation) bool { return op.CanonicalReference != "" }

// vRefResolve resolves the given operations (already filtered by version options) with the
// reference algorithm; ops must be "published sorted ++ unpublished sorted".
func vRefResolve(ops []*operation.AnchoredOperation) (*protocol.ResolutionModel, bool) {
	var creates, full, upd []*operation.AnchoredOperation
	for _, pass := range []bool{true, false} {
		for _, o := range ops {
			if o.Type == operation.TypeCreate && vIsPublished(o) == pass {
				creates = append(creates, o)
			}
		}
	}
	for _, o := range ops {
		switch o.Type {
		case operation.TypeRecover, operation.TypeDeactivate:
			full = append(full, o)
		case operation.TypeUpdate:
			upd = append(upd, o)
		}
	}
	var st *protocol.ResolutionModel
	for _, c := range creates {
		if s, ok := vStep(c, vW.recs[vTag(c)], &protocol.ResolutionModel{}); ok {
			st = s
			break
		}
	}
	if st == nil {
		return nil, false
	}
	st = vRefChain(full, st, true)
	if st.Deactivated {
		return st, true
	}
	var cands []*operation.AnchoredOperation
	for _, o := range upd {
		if !vIsPublished(o) || VOr(o.TransactionTime > st.LastOperationTransactionTime,
			VAnd(o.TransactionTime == st.LastOperationTransactionTime, o.TransactionNumber > st.LastOperationTransactionNumber)) {
			cands = append(cands, o)
		}
	}
	return vRefChain(cands, st, false), true
}

func vRefChain(cands []*operation.AnchoredOperation, st *protocol.ResolutionModel, recovery bool) *protocol.ResolutionModel {
	var used []string
	for iter := 0; iter <= len(cands); iter++ {
		c := st.UpdateCommitment
		if recovery {
			c = st.RecoveryCommitment
		}
		// does any candidate reveal a key for c?  (the implementation stops on an empty next commitment,
		// and an empty commitment is never the hash of anything)
		var next *protocol.ResolutionModel
		found := false
		for _, o := range cands {
			r := vW.recs[vTag(o)]
			if !r.parseOK || !r.commitOK {
				continue
			}
			if vC(vCommit(r.reveal)) != c {
				continue
			}
			found = true
			if next != nil {
				continue
			}
			if r.typ == operation.TypeRecover && !r.signedOK {
				continue // next commitment not obtainable
			}
			n := vNext(r)
			if n == c {
				continue
			}
			reused := false
			if n != "" {
				for _, u := range used {
					if u == n {
						reused = true
					}
				}
			}
			if reused {
				continue
			}
			if s, ok := vStep(o, r, st); ok {
				next = s
			}
		}
		_ = found
		if next == nil {
			return st
		}
		used = append(used, c)
		st = next
		nc := st.UpdateCommitment
		if recovery {
			nc = st.RecoveryCommitment
		}
		if nc == "" {
			return st
		}
	}
	return st
}

// vWorldSetup builds N records with types chosen by case split; every other attribute symbolic.
func vWorldSetup(n int, firstIsCreate bool) {
	vWorldSetupTypes(n, firstIsCreate, 0, 3)
}

// vWorldSetupTypes restricts the operation types after the first to vOpType(lo..hi).
func vWorldSetupTypes(n int, firstIsCreate bool, lo, hi int) {
	vW = &vWorld{}
	vInstallCommitStub()
	for i := 0; i < n; i++ {
		k := 0
		if i > 0 || !firstIsCreate {
			k = VNondetRange("type", lo, hi)
		}
		r := vNewRec(vOpType(k))
		VAssume(vCommit(r.reveal) != "") // an encoded multihash is never empty
		vW.recs = append(vW.recs, r)
	}
}
