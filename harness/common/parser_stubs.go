package operationparser

import (
	"github.com/trustbloc/sidetree-core-go/pkg/api/protocol"
	internal "github.com/trustbloc/sidetree-core-go/pkg/internal/jws"
	"github.com/trustbloc/sidetree-core-go/pkg/jws"
	"github.com/trustbloc/sidetree-core-go/pkg/versions/1_0/model"
)

const vMod = "github.com/trustbloc/sidetree-core-go/pkg/"

// vJWKID is the identity of a JWK as far as hashing is concerned: its canonical JSON is a
// function of exactly these members.
func vJWKID(k *jws.JWK) string {
	if k == nil {
		return "nil-jwk"
	}
	return VUFString("jcs.jwk", k.Kty, k.Crv, k.X, k.Y, k.Nonce)
}

// vHavocProtocol makes every protocol parameter an independent symbolic value; each list-valued
// parameter has nlist symbolic entries.
func vHavocProtocol(p *protocol.Protocol, nlist int) {
	p.GenesisTime = VNondetU64("p.GenesisTime")
	p.MaxOperationCount = VNondetUint("p.MaxOperationCount")
	p.MaxOperationSize = VNondetUint("p.MaxOperationSize")
	p.MaxOperationHashLength = VNondetUint("p.MaxOperationHashLength")
	p.MaxDeltaSize = VNondetUint("p.MaxDeltaSize")
	p.MaxCasURILength = VNondetUint("p.MaxCasURILength")
	p.CompressionAlgorithm = VNondetString("p.CompressionAlgorithm")
	p.MaxCoreIndexFileSize = VNondetUint("p.MaxCoreIndexFileSize")
	p.MaxProofFileSize = VNondetUint("p.MaxProofFileSize")
	p.MaxProvisionalIndexFileSize = VNondetUint("p.MaxProvisionalIndexFileSize")
	p.MaxChunkFileSize = VNondetUint("p.MaxChunkFileSize")
	p.MaxOperationTimeDelta = VNondetU64("p.MaxOperationTimeDelta")
	p.NonceSize = VNondetU64("p.NonceSize")
	p.MaxMemoryDecompressionFactor = VNondetUint("p.MaxMemoryDecompressionFactor")
	for i := 0; i < VBound("nalg", nlist); i++ {
		p.MultihashAlgorithms = append(p.MultihashAlgorithms, VNondetUint("p.MultihashAlgorithms"))
	}
	for i := 0; i < nlist; i++ {
		p.Patches = append(p.Patches, VNondetString("p.Patches"))
		p.SignatureAlgorithms = append(p.SignatureAlgorithms, VNondetString("p.SignatureAlgorithms"))
		p.KeyAlgorithms = append(p.KeyAlgorithms, VNondetString("p.KeyAlgorithms"))
	}
}

// vModelID gives a hashing identity to the models the parser hashes (JWK, delta, suffix data).
func vModelID(m interface{}) string {
	switch x := m.(type) {
	case *jws.JWK:
		return vJWKID(x)
	case *model.DeltaModel:
		if x == nil {
			return "nil-delta"
		}
		return VUFString("jcs.delta", x.UpdateCommitment, vDeltaToken(x))
	case *model.SuffixDataModel:
		if x == nil {
			return "nil-suffixdata"
		}
		return VUFString("jcs.suffixdata", x.DeltaHash, x.RecoveryCommitment)
	}
	return "other-model"
}

// vDeltaToken names the patch list of a delta by value (copies of one decoded delta get the same name).
func vDeltaToken(d *model.DeltaModel) string {
	t := ""
	for _, p := range d.Patches {
		a, _ := p["action"].(string)
		t = t + "|" + VUFString("patch.identity", a, len(p))
	}
	return t
}

// vCallLog records the security-relevant primitive calls an entry point made.
type vCallLog struct {
	validModelMH  []vMHCall
	validateDelta []*model.DeltaModel
	timeValidator [][2]int64
	getCommitment []string
}

type vMHCall struct {
	modelID string
	mh      string
	ok      bool
}

var vLog *vCallLog

// vInstallParserStubs replaces the hashing/JWS primitives under the parser by uninterpreted
// functions (deterministic per argument) and typed havoc.
func vInstallParserStubs() {
	vLog = &vCallLog{}
	vJWSMemo = map[string]*internal.JSONWebSignature{}
	// multihash decoding: valid?(mh), code(mh)
	VStub(vMod+"hashing.GetMultihashCode", func(mh string) (uint64, error) {
		if !VUFBool("mh.wellformed", mh) {
			return 0, VErr("failed to get decoded multihash")
		}
		return VUFU64("mh.code", mh), nil
	})
	VStub(vMod+"hashing.IsValidModelMultihash", func(m interface{}, mh string) error {
		id := vModelID(m)
		ok := VAnd(VUFBool("mh.wellformed", mh), VUFBool("mh.matches", id, mh))
		vLog.validModelMH = append(vLog.validModelMH, vMHCall{id, mh, ok})
		if ok {
			return nil
		}
		return VErr("supplied hash doesn't match original content")
	})
	VStub(vMod+"commitment.GetCommitment", func(k *jws.JWK, code uint) (string, error) {
		if !VUFBool("mh.supported", uint64(code)) {
			return "", VErr("algorithm not supported")
		}
		c := VUFString("commitment", vJWKID(k), uint64(code))
		vLog.getCommitment = append(vLog.getCommitment, c)
		return c, nil
	})
	VStub(vMod+"internal/jws.ParseJWS", func(s string) (*internal.JSONWebSignature, error) {
		if !VUFBool("jws.parses", s) {
			return nil, VErr("invalid JWS compact format")
		}
		if sig, ok := vJWSMemo[s]; ok {
			return sig, nil
		}
		sig := &internal.JSONWebSignature{}
		vHavocJWS(s, sig)
		vJWSMemo[s] = sig
		return sig, nil
	})
}

var vJWSMemo map[string]*internal.JSONWebSignature

// vHavocJWS: an arbitrary decoded JWS (protected headers of any JSON shape, opaque payload).
func vHavocJWS(s string, sig *internal.JSONWebSignature) {
	var h jws.Headers
	VHavocBounds(1, 1, 2)
	VHavoc("jws.headers", &h)
	VHavocBounds(2, 2, 2)
	sig.ProtectedHeaders = h
	sig.Payload = VNondetBytes("jws.payload")
}

type vTimeValidator struct{ fail bool }

func (v *vTimeValidator) Validate(from, until int64) error {
	vLog.timeValidator = append(vLog.timeValidator, [2]int64{from, until})
	if v.fail {
		return ErrOperationExpired
	}
	return nil
}

type vOriginValidator struct{ fail bool }

func (v *vOriginValidator) Validate(_ interface{}) error {
	if v.fail {
		return VErr("origin not allowed")
	}
	return nil
}
