#!/usr/bin/env python3
"""Summarise the latest evaluation of every behaviour-preserving patch (logs of tools/refactor_eval.sh in /tmp/reflogs)
into /verif/refactors/RESULTS.md."""
import glob, os, re
rows = []
for d in sorted(glob.glob('/verif/refactors/*/')):
    name = os.path.basename(d.rstrip('/'))
    prop = name[:3]
    for p in sorted(glob.glob(d + 'patch*.diff')):
        k = os.path.basename(p)[:-5]
        cands = ['/tmp/reflogs/%s_%s.log' % (name, k), '/tmp/reflogs/%sr.out_%s.log' % (name, k), '/tmp/reflogs/%ss.out_%s.log' % (name.rstrip('b'), k)]
        cands = [c for c in cands if os.path.exists(c)]
        if not cands:
            rows.append('| %s | %s | %s | not evaluated | |' % (name, k, prop)); continue
        log = max(cands, key=os.path.getmtime)
        txt = open(log).read()
        m = re.search(r'^SUMMARY.*exit=(\d)', txt, re.M)
        rc = m.group(1) if m else '2'
        nv = len(re.findall(r'^VIOLATION', txt, re.M))
        notes = '; '.join(sorted(set(re.findall(r'^NOTE harness (\S+) skipped', txt, re.M))))
        inc = re.findall(r'^INCONCLUSIVE property=\S+ (.*)', txt, re.M)
        why = ''
        if rc == '2':
            why = (inc[0][:110] if inc else 'no summary (time limit)')
        verdict = {'0': 'exit 0', '1': 'exit 1 (VIOLATION x%d)' % nv, '2': 'exit 2 (inconclusive)'}[rc]
        rows.append('| %s | %s | %s | %s | %s |' % (name, k, prop, verdict, (('skipped: ' + notes + ' ') if notes else '') + why))
out = ['# Behaviour-preserving refactorings: latest evaluation', '',
       'One row per patch: the quick check of the property with the patch applied to /repo (`tools/refactor_eval.sh`).', '',
       '| set | patch | property | result | remarks |', '|---|---|---|---|---|'] + rows
ok = sum('exit 0' in r for r in rows); v = sum('exit 1' in r for r in rows); i = sum('exit 2' in r for r in rows)
out += ['', '%d patches: %d exit 0, %d with a VIOLATION line, %d inconclusive.' % (len(rows), ok, v, i)]
open('/verif/refactors/RESULTS.md', 'w').write('\n'.join(out) + '\n')
print(out[-1])
