#!/usr/bin/env python3
"""Regenerate the seeded-change table of DESIGN.md §10 from seeded/*/meta.json.

The table lives between the markers <!-- seedtable:begin --> and <!-- seedtable:end -->.
"""
import glob
import json
import re

rows = []
missed_first = 0
n = 0
for d in sorted(glob.glob('/verif/seeded/*/')):
    m = json.load(open(d + 'meta.json'))
    n += 1
    labels = []
    for line in m.get('check_output_tail', []):
        if not line.startswith('VIOLATION'):
            continue
        mm = re.search(r'label="([^"]*)"', line)
        if mm and mm.group(1) not in labels:
            labels.append(mm.group(1))
    extra = m.get('assertions')
    if extra:
        labels = extra
    hist = m.get('history') or ('detected at first run' if m.get('detected') else 'NOT detected')
    if 'MISSED' in hist:
        missed_first += 1
    rows.append('| %s | %s | %s | %s | %s |' % (
        m['seed'], m['property'], m.get('needs_to_manifest', '').replace('|', '/'),
        '; '.join(labels).replace('|', '/') or '-', hist.replace('|', '/')))

table = ['| seed | breaks | needs, to manifest | assertion(s) that fire | history |', '|---|---|---|---|---|'] + rows
table.append('')
table.append('%d seeded changes; %d were missed by the check as it stood when the seed arrived and led to a stronger harness.' % (n, missed_first))

p = '/verif/DESIGN.md'
s = open(p).read()
b, e = '<!-- seedtable:begin -->', '<!-- seedtable:end -->'
i, j = s.index(b), s.index(e)
s = s[:i + len(b)] + '\n' + '\n'.join(table) + '\n' + s[j:]
open(p, 'w').write(s)
print('seeds', n, 'missed-first', missed_first)
