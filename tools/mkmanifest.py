#!/usr/bin/env python3
"""Regenerates /verif/MANIFEST.json from tools/claims.json (claimed checks) + properties.jsonl."""
import json, os
V = '/verif'
claims = json.load(open(f'{V}/tools/claims.json'))
props = [json.loads(l) for l in open(f'{V}/properties.jsonl')]
checks, na = [], []
for p in props:
    c = claims.get(p['id'])
    if c and c.get('claimed'):
        checks.append({
            "property_id": p['id'],
            "quick_cmd": f"checks/run.sh {p['id']} quick",
            "thorough_cmd": f"checks/run.sh {p['id']} thorough",
            "evidence_file": f"/verif/evidence/{p['id']}.json",
            "replay_cmd_template": f"checks/replay.sh {p['id']} {{path}}",
            "engine": "symgo",
            "level_claimed": {"category": "model_checking", "text": c['text'], "design_ref": c.get('design_ref', f"DESIGN.md §5 {p['id']}")},
            "level_note": c['note'],
            "technique": c.get('technique', "bounded symbolic execution of the real Go code (go/ssa → SMT-LIB2, z3), every obligation decided by the solver within stated bounds; counterexamples replayed natively"),
        })
    else:
        na.append({"property_id": p['id'], "reason": (c or {}).get('reason', 'check not built yet in this session (engine exists; harness pending)')})
m = {
    "version": 1,
    "setup_cmd": "cd /verif/engine && GOFLAGS=-mod=mod GOPROXY=off GOSUMDB=off GOTOOLCHAIN=local go build -o /verif/bin/symgo ./cmd/symgo",
    "hooks": {"guard": "verif", "enable": "none needed: harnesses are injected into the package under test as go/packages overlays (and go test -overlay for replays); /repo carries no hook code", "baseline_off_cmd": "cd /repo && go test -vet=off -count=1 -timeout 25m ./...", "source_commits": [], "add_only": True},
    "engines": [{"name": "symgo", "path": "/verif/engine", "serves_properties": [c['property_id'] for c in checks], "kind_free_text": "symbolic executor for go/ssa written for this task; SMT-LIB2 queries to z3 5.1.0 (z3-new -in), cross-checked with z3 4.8.12 / cvc5 1.0"}],
    "checks": checks,
    "not_applicable": na,
    "notes": "Every check reloads /repo's working tree with go/packages, regenerates the encoding and decides every obligation with the solver. exit 0 = all obligations discharged and all cover goals reached; exit 1 = VIOLATION (counterexample, replayed natively where the harness is native); exit 2 = INCONCLUSIVE (bound hit, solver unknown, unmodelled callee, non-reproducing counterexample).",
}
json.dump(m, open(f'{V}/MANIFEST.json', 'w'), indent=1)
print(len(checks), 'claimed;', len(na), 'not applicable')
