#!/bin/bash
# runs every registered thorough check one after another with 8 workers (leaves cores for other work)
cd /verif
for p in $(python3 -c "import json;print(' '.join(c['property_id'] for c in json.load(open('/verif/MANIFEST.json'))['checks']))"); do
  s=$(date +%s); out=$(checks/run.sh $p thorough -workers 8 2>&1); rc=$?; e=$(date +%s)
  echo "$p rc=$rc $((e-s))s $(echo "$out" | grep SUMMARY | sed 's/.*paths=/paths=/' | cut -c1-200)"
  echo "$out" | grep -v "^SUMMARY\|^NOTE" | cut -c1-300 | head -6
done
