#!/bin/bash
# usage: tools/run_all.sh quick|thorough [props...]  — runs the registered checks one after another, prints one line per property
T=${1:-quick}; shift
PROPS="$@"; [ -z "$PROPS" ] && PROPS=$(python3 -c "import json;print(' '.join(c['property_id'] for c in json.load(open('/verif/MANIFEST.json'))['checks']))")
for p in $PROPS; do
  s=$(date +%s); out=$(checks/run.sh $p $T 2>&1); rc=$?; e=$(date +%s)
  echo "$p rc=$rc $((e-s))s $(echo "$out" | grep SUMMARY | sed 's/.*paths=/paths=/' | cut -c1-170)"
  echo "$out" | grep -v "^SUMMARY\|^NOTE" | cut -c1-300 | head -5
done
