#!/bin/bash
# usage: tools/refactor_eval.sh <property> <patch>...  — applies each behaviour-preserving patch to /repo, runs the property's quick
# check (no evidence written), reverts; prints one line per patch. Expected: exit 0 (no alarm). Anything else is a false alarm
# (exit 1) or a robustness gap (exit 2) of the machinery.
set -u
PROP=$1; shift
mkdir -p /tmp/reflogs
for P in "$@"; do
  [ -z "$(git -C /repo status --short)" ] || { echo "/repo not clean"; exit 1; }
  git -C /repo apply "$P" || { echo "$P: DOES NOT APPLY"; continue; }
  n=$(basename $(dirname $P))_$(basename $P .diff)
  s=$(date +%s)
  (cd /verif && checks/run.sh $PROP quick -noevidence ${EXTRA:-} > /tmp/reflogs/$n.log 2>&1); RC=$?
  git -C /repo checkout -q -- .; git -C /repo clean -fdq
  e=$(date +%s)
  echo "$PROP $n rc=$RC $((e-s))s $(grep -c '^VIOLATION' /tmp/reflogs/$n.log) violations, $(grep -c '^INCONCLUSIVE' /tmp/reflogs/$n.log) inconclusive"
  grep '^VIOLATION\|^INCONCLUSIVE' /tmp/reflogs/$n.log | sed 's/replay=[^ ]* //' | cut -c1-230 | head -4
done
