#!/usr/bin/env python3
"""Regenerate the bounds table of DESIGN.md §0.1 from harness/*/spec.json (between the markers
<!-- boundstable:begin --> and <!-- boundstable:end -->)."""
import glob, json

def fmt(b):
    if not b:
        return 'fixed'
    return ', '.join('%s=%s' % kv for kv in b.items())

rows = ['| id | harness entry (package) | tiers | quick bound | thorough bound | native replay |', '|---|---|---|---|---|---|']
for p in sorted(glob.glob('/verif/harness/C*/spec.json')):
    s = json.load(open(p))
    for h in s['harnesses']:
        tiers = '/'.join(h.get('tiers') or ['quick', 'thorough'])
        q = fmt(h.get('quick')) if 'quick' in tiers else '-'
        t = fmt(h.get('thorough') or h.get('quick')) if 'thorough' in tiers else '-'
        rows.append('| %s | `%s` (%s) | %s | %s | %s | %s |' % (
            s['property'], h['entry'].replace('VHarness_', ''), h['dir'].replace('pkg/', ''), tiers, q, t,
            'yes' if h.get('native') else 'no'))
    cfg = s.get('config', {})
    tc = s.get('thorough_config') or {}
    rows.append('| %s | *time budget* | | %ss | %ss | |' % (s['property'], cfg.get('MaxSeconds', 900), tc.get('MaxSeconds', cfg.get('MaxSeconds', 900))))
p = '/verif/DESIGN.md'
s = open(p).read()
b, e = '<!-- boundstable:begin -->', '<!-- boundstable:end -->'
i, j = s.index(b), s.index(e)
s = s[:i + len(b)] + '\n' + '\n'.join(rows) + '\n' + s[j:]
open(p, 'w').write(s)
print('rows', len(rows))
