#!/bin/bash
# usage: tools/seed_eval.sh <seed-id> <property> <demo-pkg-dir> <worktree>  — confirms a seeded change in its scratch worktree,
# stores it under /verif/seeded/<seed-id>/ and runs the property's quick check against /repo with the change applied.
set -u
export GOFLAGS=-mod=mod GOPROXY=off GOSUMDB=off GOTOOLCHAIN=local
ID=$1; PROP=$2; PKG=$3; WT=$4; OUT=$WT.out
[ -d "$WT/.git" ] || [ -f "$WT/.git" ] || { echo "no such worktree: $WT"; exit 1; }
[ -f "$OUT/patch.diff" ] || { echo "no patch in $OUT"; exit 1; }
D=/verif/seeded/$ID; mkdir -p $D
cp $OUT/patch.diff $D/patch.diff; cp $OUT/*_test.go $D/ 2>/dev/null; cp $OUT/notes.md $D/agent_notes.md 2>/dev/null
cd $WT || exit 1
git checkout -q -- . ; git apply $D/patch.diff || { echo "PATCH DOES NOT APPLY"; exit 1; }
cp $D/zz_demo_test.go $WT/$PKG/ 2>/dev/null
BUILD=$(go build ./... 2>&1 | tail -2)
WITH=$(go test -vet=off -count=1 -run 'Demo' ./$PKG 2>&1 | tail -1)
EXIST=$(go test -vet=off -count=1 -skip 'Demo' ./$PKG 2>&1 | tail -1)
git checkout -q -- .
WITHOUT=$(go test -vet=off -count=1 -run 'Demo' ./$PKG 2>&1 | tail -1)
echo "build: [$BUILD]"; echo "demo with change:    $WITH"; echo "demo without change: $WITHOUT"; echo "existing pkg tests with change: $EXIST"
cd /repo && git apply $D/patch.diff || { echo "PATCH DOES NOT APPLY TO /repo"; exit 1; }
mkdir -p /tmp/seedlogs
cd /verif && checks/run.sh $PROP quick -noevidence > /tmp/seedlogs/$ID.log 2>&1; RC=$?
CHK=$( (grep "^VIOLATION" /tmp/seedlogs/$ID.log | head -3; grep -v "^NOTE\|^VIOLATION\|^KNOWN\|^cover" /tmp/seedlogs/$ID.log | tail -2) | cut -c1-260)
cd /repo && git checkout -q -- . && git status --short | head -3
echo "check on seeded tree:"; echo "$CHK"
python3 - "$ID" "$PROP" "$WITH" "$WITHOUT" "$EXIST" "$CHK" <<'PY'
import json,sys,os
i,prop,w,wo,ex,chk=sys.argv[1:7]
d=f'/verif/seeded/{i}'
m={"seed":i,"property":prop,"demo_with_change":w,"demo_without_change":wo,"existing_tests_with_change":ex,
   "check_cmd":f"checks/run.sh {prop} quick","check_output_tail":chk.splitlines()[-5:],"detected":("VIOLATION" in chk)}
old={}
if os.path.exists(d+'/meta.json'): old=json.load(open(d+'/meta.json'))
old.update(m); json.dump(old,open(d+'/meta.json','w'),indent=1)
print("DETECTED" if m["detected"] else "MISSED")
PY
