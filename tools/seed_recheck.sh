#!/bin/bash
# usage: tools/seed_recheck.sh <seed-id>...  — re-runs the property's quick check against /repo with seeded/<id>/patch.diff applied
# (reverted afterwards) and refreshes detected / check_output_tail in the seed's meta.json. One line per seed.
set -u
mkdir -p /tmp/seedlogs
for ID in "$@"; do
  D=/verif/seeded/$ID
  PROP=$(python3 -c "import json;print(json.load(open('$D/meta.json'))['property'])")
  [ -z "$(git -C /repo status --short)" ] || { echo "$ID: /repo not clean"; exit 1; }
  git -C /repo apply $D/patch.diff || { echo "$ID: PATCH DOES NOT APPLY"; continue; }
  s=$(date +%s)
  (cd /verif && checks/run.sh $PROP quick -noevidence > /tmp/seedlogs/$ID.log 2>&1); RC=$?
  git -C /repo checkout -q -- .
  e=$(date +%s)
  python3 - "$ID" "$RC" <<'PY'
import json,sys
i,rc=sys.argv[1],int(sys.argv[2])
log=open(f'/tmp/seedlogs/{i}.log').read().splitlines()
v=[l[:260] for l in log if l.startswith('VIOLATION')][:3]
t=[l[:260] for l in log if not l.startswith(('NOTE','VIOLATION','KNOWN','cover'))][-2:]
p=f'/verif/seeded/{i}/meta.json'; m=json.load(open(p))
m['check_output_tail']=v+t; m['detected']=bool(v) and rc==1
json.dump(m,open(p,'w'),indent=1)
print(i, 'DETECTED' if m['detected'] else 'MISSED rc=%d'%rc, ' | '.join(x.split('label=')[1].split(' at=')[0] for x in v if 'label=' in x))
PY
  echo "   ($((e-s))s)"
done
