#!/bin/bash
# usage: checks/run.sh <property> <quick|thorough> [extra symgo flags]
# Rebuilds the encoding from /repo's current working tree on every run.
set -u
cd /verif
export GOFLAGS=-mod=mod GOPROXY=off GOSUMDB=off GOTOOLCHAIN=local
PROP="$1"; TIER="${2:-quick}"; shift; shift || true
if [ ! -x /verif/bin/symgo ] || [ -n "$(find /verif/engine -name '*.go' -newer /verif/bin/symgo 2>/dev/null | head -1)" ]; then
  (cd /verif/engine && go build -o /verif/bin/symgo ./cmd/symgo) || { echo "INCONCLUSIVE property=$PROP engine build failed"; exit 2; }
fi
ulimit -v 24000000 2>/dev/null  # 24 GB address-space cap per check (solver children inherit it)
LIMIT=1500; [ "$TIER" = thorough ] && LIMIT=7200
exec timeout --signal=KILL ${LIMIT}s /verif/bin/symgo check -prop "$PROP" -tier "$TIER" "$@"
