#!/bin/bash
# usage: checks/replay.sh <property> <witness.json> — re-runs the harness natively (go test -overlay) with the solver's witness
cd /verif
export GOFLAGS=-mod=mod GOPROXY=off GOSUMDB=off GOTOOLCHAIN=local
[ -x /verif/bin/symgo ] || (cd /verif/engine && go build -o /verif/bin/symgo ./cmd/symgo)
exec /verif/bin/symgo replay -prop "$1" -witness "$2"
