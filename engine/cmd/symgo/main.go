// symgo: solver-based checking of the real sidetree-core-go code (go/ssa symbolic execution + SMT).
package main

import (
	"encoding/json"
	"flag"
	"fmt"
	"go/ast"
	"go/parser"
	"go/token"
	"os"
	"os/exec"
	"path/filepath"
	"regexp"
	"sort"
	"strconv"
	"strings"
	"time"

	"golang.org/x/tools/go/ssa"

	"verif/engine/sym"
)

type Unit struct {
	Dir   string   `json:"dir"`
	Files []string `json:"files"`
}

type HarnessSpec struct {
	Entry    string         `json:"entry"`
	Dir      string         `json:"dir"`
	Native   bool           `json:"native"`
	Tiers    []string       `json:"tiers"`
	Quick    map[string]int `json:"quick"`
	Thorough map[string]int `json:"thorough"`
	Covers   []string       `json:"covers"`
	Note     string         `json:"note"`
	Solver   string         `json:"solver"`
}

type Spec struct {
	Property    string            `json:"property"`
	Units       []Unit            `json:"units"`
	Harnesses   []HarnessSpec     `json:"harnesses"`
	Assumptions []string          `json:"assumptions"`
	Stubs       []string          `json:"stubs"`
	Config      map[string]int    `json:"config"`
	ThoroughCfg map[string]int    `json:"thorough_config"`
	Outside     []string          `json:"outside"`
	Extra       map[string]string `json:"extra"`
}

type Finding struct {
	ID       string `json:"id"`
	Property string `json:"property"`
	Status   string `json:"status"` // open | fixed
	Commit   string `json:"commit,omitempty"`
	What     string `json:"what"`
}

type KnownFile struct {
	Findings []Finding `json:"findings"`
}

var (
	repoDir  = "/repo"
	verifDir = "/verif"
)

func main() {
	if r := os.Getenv("SYMGO_REPO"); r != "" {
		// calibration against a scratch copy of the tree; evidence is never written from such a run
		repoDir = r
		fmt.Printf("NOTE calibration run against %s (not /repo): no evidence written\n", r)
	}
	if len(os.Args) < 2 {
		fmt.Println("usage: symgo check -prop Cxx -tier quick|thorough | symgo replay -prop Cxx -witness file")
		os.Exit(2)
	}
	switch os.Args[1] {
	case "check":
		os.Exit(cmdCheck(os.Args[2:]))
	case "replay":
		os.Exit(cmdReplay(os.Args[2:]))
	default:
		fmt.Println("unknown command", os.Args[1])
		os.Exit(2)
	}
}

func loadSpec(prop string) (*Spec, error) {
	b, err := os.ReadFile(filepath.Join(verifDir, "harness", prop, "spec.json"))
	if err != nil {
		return nil, err
	}
	var s Spec
	if err := json.Unmarshal(b, &s); err != nil {
		return nil, fmt.Errorf("spec.json: %v", err)
	}
	return &s, nil
}

var pkgRe = regexp.MustCompile(`(?m)^package\s+(\w+)`)
var requiresRe = regexp.MustCompile(`(?m)^// verif:requires\s+(\S+)`)
var harnessFnRe = regexp.MustCompile(`(?m)^func (VHarness_\w+)\(`)

// skippedHarness: entry -> reason. A harness file may declare `// verif:requires name` (a top-level function
// `f` or a method `T.m` of the package under test that the harness calls directly: a kernel lemma about an
// unexported helper). When a tree no longer has that helper the lemma is moot: the file is left out, its
// harnesses are reported as skipped, and the property is decided by the remaining (API-level) harnesses.
var skippedHarness = map[string]string{}

func pkgHasSymbol(dir, sym string) bool {
	fset := token.NewFileSet()
	pkgs, err := parser.ParseDir(fset, dir, func(fi os.FileInfo) bool {
		return !strings.HasSuffix(fi.Name(), "_test.go") && !strings.HasPrefix(fi.Name(), "zz_verif_")
	}, 0)
	if err != nil {
		return true // cannot tell: let the type checker decide
	}
	for _, p := range pkgs {
		for _, f := range p.Files {
			for _, d := range f.Decls {
				fd, ok := d.(*ast.FuncDecl)
				if !ok {
					continue
				}
				name := fd.Name.Name
				if fd.Recv != nil && len(fd.Recv.List) == 1 {
					t := fd.Recv.List[0].Type
					if st, ok := t.(*ast.StarExpr); ok {
						t = st.X
					}
					if id, ok := t.(*ast.Ident); ok {
						name = id.Name + "." + name
					}
				}
				if name == sym {
					return true
				}
			}
		}
	}
	return false
}

// buildOverlay returns virtual path -> content for go/packages and virtual path -> real file for go test.
func buildOverlay(spec *Spec, tmp string) (map[string][]byte, map[string]string, error) {
	ov := map[string][]byte{}
	real := map[string]string{}
	prelude, err := os.ReadFile(filepath.Join(verifDir, "harness", "prelude", "prelude.go.txt"))
	if err != nil {
		return nil, nil, err
	}
	for _, u := range spec.Units {
		pkgName := ""
		for _, f := range u.Files {
			src := filepath.Join(verifDir, "harness", spec.Property, f)
			b, err := os.ReadFile(src)
			if err != nil {
				return nil, nil, err
			}
			if m := pkgRe.FindSubmatch(b); m != nil && pkgName == "" {
				pkgName = string(m[1])
			}
			missing := ""
			for _, m := range requiresRe.FindAllSubmatch(b, -1) {
				if !pkgHasSymbol(filepath.Join(repoDir, u.Dir), string(m[1])) {
					missing = string(m[1])
				}
			}
			if missing != "" {
				for _, m := range harnessFnRe.FindAllSubmatch(b, -1) {
					skippedHarness[string(m[1])] = fmt.Sprintf("the helper %s it is a lemma about is not in %s of this tree", missing, u.Dir)
				}
				continue
			}
			v := filepath.Join(repoDir, u.Dir, "zz_verif_"+filepath.Base(f))
			ov[v] = b
			real[v] = src
		}
		if pkgName == "" {
			return nil, nil, fmt.Errorf("unit %s: no package clause", u.Dir)
		}
		pb := []byte(strings.Replace(string(prelude), "package PKGNAME", "package "+pkgName, 1))
		v := filepath.Join(repoDir, u.Dir, "zz_verif_prelude.go")
		ov[v] = pb
		if tmp != "" {
			pf := filepath.Join(tmp, "prelude_"+pkgName+"_"+strings.ReplaceAll(u.Dir, "/", "_")+".go")
			if err := os.WriteFile(pf, pb, 0o644); err != nil {
				return nil, nil, err
			}
			real[v] = pf
		}
	}
	return ov, real, nil
}

func pkgNameOf(spec *Spec, dir string) string {
	for _, u := range spec.Units {
		if u.Dir == dir && len(u.Files) > 0 {
			b, _ := os.ReadFile(filepath.Join(verifDir, "harness", spec.Property, u.Files[0]))
			if m := pkgRe.FindSubmatch(b); m != nil {
				return string(m[1])
			}
		}
	}
	return ""
}

type replayJob struct {
	Name    string
	Entry   string
	Witness string
}

// nativeReplay runs harness entries natively against the real build, each with its witness.
// Returns name -> output lines.
func nativeReplay(spec *Spec, dir string, jobs []replayJob) (map[string][]string, string, error) {
	tmp, err := os.MkdirTemp("", "symgo-replay-")
	if err != nil {
		return nil, "", err
	}
	defer os.RemoveAll(tmp)
	_, real, err := buildOverlay(spec, tmp)
	if err != nil {
		return nil, "", err
	}
	pkg := pkgNameOf(spec, dir)
	var sb strings.Builder
	fmt.Fprintf(&sb, "package %s\n\nimport (\n\t\"fmt\"\n\t\"os\"\n\t\"testing\"\n)\n\nfunc TestVReplay(t *testing.T) {\n", pkg)
	for _, j := range jobs {
		fmt.Fprintf(&sb, "\tfmt.Println(\"VREPLAY-BEGIN %s\")\n\tvWit.loaded = false\n\tvWit.Vars, vWit.UFs, vWit.Bounds = nil, nil, nil\n\tvNames = map[string]int{}\n\tos.Setenv(\"VERIF_WITNESS\", %q)\n\tVReplayRun(%s)\n", j.Name, j.Witness, j.Entry)
	}
	sb.WriteString("}\n")
	tf := filepath.Join(tmp, "replay_test.go")
	if err := os.WriteFile(tf, []byte(sb.String()), 0o644); err != nil {
		return nil, "", err
	}
	real[filepath.Join(repoDir, dir, "zz_verif_replay_test.go")] = tf
	ovj, _ := json.Marshal(map[string]interface{}{"Replace": real})
	ovf := filepath.Join(tmp, "overlay.json")
	os.WriteFile(ovf, ovj, 0o644)
	cmd := exec.Command("go", "test", "-vet=off", "-count=1", "-timeout", "300s", "-overlay", ovf, "-run", "^TestVReplay$", "-v", "./"+dir)
	cmd.Dir = repoDir
	cmd.Env = append(os.Environ(), "GOFLAGS=-mod=mod", "GOPROXY=off", "GOSUMDB=off", "GOTOOLCHAIN=local")
	out, _ := cmd.CombinedOutput()
	res := map[string][]string{}
	cur := ""
	for _, l := range strings.Split(string(out), "\n") {
		if strings.HasPrefix(l, "VREPLAY-BEGIN ") {
			cur = strings.TrimPrefix(l, "VREPLAY-BEGIN ")
			res[cur] = []string{}
			continue
		}
		if cur != "" {
			if strings.HasPrefix(l, "VREPLAY-") || strings.HasPrefix(l, "panic:") || strings.Contains(l, "[recovered]") || strings.HasPrefix(l, "fatal error:") {
				res[cur] = append(res[cur], l)
			}
		}
	}
	return res, string(out), nil
}

func sanitize(s string) string {
	return regexp.MustCompile(`[^A-Za-z0-9_.-]+`).ReplaceAllString(s, "_")
}

func hasTier(h HarnessSpec, tier string) bool {
	if len(h.Tiers) == 0 {
		return true
	}
	for _, t := range h.Tiers {
		if t == tier {
			return true
		}
	}
	return false
}

func cmdCheck(args []string) int {
	fs := flag.NewFlagSet("check", flag.ExitOnError)
	prop := fs.String("prop", "", "property id")
	tier := fs.String("tier", "quick", "quick|thorough")
	only := fs.String("only", "", "run only harness entries matching this substring")
	workers := fs.Int("workers", 16, "parallel workers")
	noReplay := fs.Bool("noreplay", false, "skip native replays")
	solver := fs.String("solver", "z3-new", "z3-new|z3|cvc5")
	boundsOv := fs.String("bounds", "", "calibration only: override harness bounds, e.g. N=4,K=3 (implies -noevidence)")
	maxSecOv := fs.Int("maxseconds", 0, "calibration only: override the exploration time budget (implies -noevidence)")
	noEvidence := fs.Bool("noevidence", false, "do not rewrite evidence/<prop>.json")
	fs.Parse(args)
	if *boundsOv != "" || *maxSecOv > 0 || repoDir != "/repo" {
		*noEvidence = true
	}
	t0 := time.Now()
	seed, _ := strconv.Atoi(os.Getenv("VERIF_SEED"))
	if t := os.Getenv("VERIF_TIER"); t != "" && *tier == "" {
		*tier = t
	}
	fail := func(format string, a ...interface{}) int {
		fmt.Printf("INCONCLUSIVE property=%s "+format+"\n", append([]interface{}{*prop}, a...)...)
		return 2
	}
	spec, err := loadSpec(*prop)
	if err != nil {
		return fail("spec: %v", err)
	}
	ov, _, err := buildOverlay(spec, "")
	if err != nil {
		return fail("overlay: %v", err)
	}
	var patterns []string
	seen := map[string]bool{}
	for _, u := range spec.Units {
		if !seen[u.Dir] {
			seen[u.Dir] = true
			patterns = append(patterns, "./"+u.Dir)
		}
	}
	tLoad := time.Now()
	prog, pkgs, err := sym.Load(repoDir, patterns, ov)
	if err != nil {
		return fail("load: %v", err)
	}
	loadS := time.Since(tLoad).Seconds()

	cfg := sym.DefaultConfig()
	cfg.Workers = *workers
	cfg.Solver = *solver
	apply := func(m map[string]int) {
		for k, v := range m {
			switch k {
			case "MaxUnwind":
				cfg.MaxUnwind = v
			case "MaxSteps":
				cfg.MaxSteps = v
			case "MaxEnum":
				cfg.MaxEnum = v
			case "MaxPaths":
				cfg.MaxPaths = v
			case "TimeoutMs":
				cfg.TimeoutMs = v
			case "MaxDepth":
				cfg.MaxDepth = v
			case "MaxSeconds":
				cfg.MaxSeconds = v
			}
		}
	}
	apply(spec.Config)
	if *tier == "thorough" {
		apply(spec.ThoroughCfg)
	}
	if *maxSecOv > 0 {
		cfg.MaxSeconds = *maxSecOv
	}
	eng := sym.NewEngine(prog, cfg)
	eng.WantCoverWitness = true
	eng.Bounds = map[string]map[string]int{}
	eng.SolverFor = map[string]string{}

	// known findings
	var known KnownFile
	if b, err := os.ReadFile(filepath.Join(verifDir, "known_findings.json")); err == nil {
		json.Unmarshal(b, &known)
	}
	openWhat := map[string]string{}
	for _, f := range known.Findings {
		if f.Property == *prop && f.Status == "open" {
			eng.Open[f.ID] = true
			openWhat[f.ID] = f.What
		}
	}

	var entries []*ssa.Function
	specOf := map[string]HarnessSpec{}
	for _, h := range spec.Harnesses {
		if !hasTier(h, *tier) || (*only != "" && !strings.Contains(h.Entry, *only)) {
			continue
		}
		if why, skipped := skippedHarness[h.Entry]; skipped {
			fmt.Printf("NOTE harness %s skipped: %s (the property is decided by the remaining harnesses)\n", h.Entry, why)
			spec.Assumptions = append(spec.Assumptions, "harness "+h.Entry+" skipped: "+why)
			continue
		}
		var fn *ssa.Function
		for _, p := range pkgs {
			if p != nil && strings.HasSuffix(p.Pkg.Path(), h.Dir) {
				if f := p.Func(h.Entry); f != nil {
					fn = f
				}
			}
		}
		if fn == nil {
			return fail("harness entry %s not found in %s", h.Entry, h.Dir)
		}
		entries = append(entries, fn)
		specOf[h.Entry] = h
		b := h.Quick
		if *tier == "thorough" && h.Thorough != nil {
			b = h.Thorough
		}
		if *boundsOv != "" {
			nb := map[string]int{}
			for k, v := range b {
				nb[k] = v
			}
			for _, kv := range strings.Split(*boundsOv, ",") {
				if i := strings.Index(kv, "="); i > 0 {
					n, _ := strconv.Atoi(kv[i+1:])
					nb[kv[:i]] = n
				}
			}
			b = nb
		}
		eng.Bounds[h.Entry] = b
		if h.Solver != "" {
			eng.SolverFor[h.Entry] = h.Solver
		}
	}
	if len(entries) == 0 {
		return fail("no harness selected")
	}
	tRun := time.Now()
	eng.Run(entries)
	runS := time.Since(tRun).Seconds()

	// ---- collect ----
	results := eng.Results()
	witDir := filepath.Join(verifDir, "evidence", "witness", *prop)
	os.RemoveAll(witDir)
	os.MkdirAll(witDir, 0o755)
	exit := 0
	var lines []string
	states, transitions, obligations, discharged, trivial := 0, 0, 0, 0, 0
	var samples []interface{}
	var inconclusive []string
	coverTotal, coverHit := 0, 0
	validated := 0
	var violations []*sym.Violation
	knownHit := map[string]int{}
	boundsOut := map[string]map[string]int{}
	assum := map[string]bool{}

	type pendingReplay struct {
		v    *sym.Violation
		h    HarnessSpec
		kind string // violation | cover
	}
	var pend []pendingReplay

	writeWitness := func(v *sym.Violation, name string, bounds map[string]int) string {
		p := filepath.Join(witDir, sanitize(name)+".json")
		m := map[string]interface{}{"harness": v.Harness, "label": v.Label, "kind": v.Kind, "where": v.Where, "stack": v.Stack,
			"trace": v.Trace, "vars": v.Vars, "ufs": v.UFs, "logs": v.Logs, "bounds": bounds, "property": *prop}
		b, _ := json.MarshalIndent(m, "", " ")
		os.WriteFile(p, b, 0o644)
		return p
	}

	for _, r := range results {
		hs := specOf[r.Name]
		states += r.Paths
		transitions += r.Branches
		obligations += r.Obligations
		discharged += r.Discharged + r.Trivial
		trivial += r.Trivial
		boundsOut[r.Name] = eng.Bounds[r.Name]
		for a := range r.Assumptions {
			assum[a] = true
		}
		for reason, n := range r.Aborts {
			inconclusive = append(inconclusive, fmt.Sprintf("%s: %s (x%d)", r.Name, reason, n))
		}
		for where, n := range r.Unknowns {
			inconclusive = append(inconclusive, fmt.Sprintf("%s: solver unknown at %s (x%d)", r.Name, where, n))
		}
		for id, n := range r.Known {
			knownHit[id] += n
		}
		if r.Skipped != "" {
			fmt.Printf("NOTE harness %s skipped: %s (the property is decided by the remaining harnesses)\n", r.Name, r.Skipped)
			spec.Assumptions = append(spec.Assumptions, "harness "+r.Name+" skipped: "+r.Skipped)
		}
		for _, c := range hs.Covers {
			if r.Skipped != "" && r.Covers[c] == 0 {
				continue
			}
			coverTotal++
			if r.Covers[c] > 0 {
				coverHit++
			} else {
				inconclusive = append(inconclusive, fmt.Sprintf("%s: cover goal %q not reached (vacuity guard)", r.Name, c))
			}
		}
		var labs []string
		for l := range r.Violations {
			labs = append(labs, l)
		}
		sort.Strings(labs)
		for _, l := range labs {
			v := r.Violations[l]
			v.Replay = writeWitness(v, r.Name+"__"+l, eng.Bounds[r.Name])
			violations = append(violations, v)
			if hs.Native && !*noReplay {
				pend = append(pend, pendingReplay{v, hs, "violation"})
			}
		}
		// cover witnesses: a few per harness are replayed natively (translator validation)
		var cls []string
		for l := range r.CoverWit {
			cls = append(cls, l)
		}
		sort.Strings(cls)
		maxCov := 2
		if *tier == "thorough" {
			maxCov = 6
		}
		for i, l := range cls {
			w := r.CoverWit[l]
			if len(samples) < 10 {
				samples = append(samples, map[string]interface{}{"harness": r.Name, "cover": l, "witness_vars": w.Vars, "bounds": eng.Bounds[r.Name]})
			}
			if hs.Native && !*noReplay && i < maxCov {
				w.Replay = writeWitness(w, r.Name+"__cover__"+l, eng.Bounds[r.Name])
				pend = append(pend, pendingReplay{w, hs, "cover"})
			}
		}
		for _, s := range r.Samples {
			if len(samples) < 16 {
				samples = append(samples, map[string]interface{}{"harness": r.Name, "sample": s})
			}
		}
		samples = append(samples, map[string]interface{}{"harness": r.Name, "bounds": eng.Bounds[r.Name], "paths": r.Paths, "infeasible_or_assumed_away": r.PathsEnded,
			"obligations": r.Obligations, "discharged_by_solver": r.Discharged, "discharged_concretely": r.Trivial, "labels": r.Labels, "covers": r.Covers})
	}

	// ---- native replays, grouped by package dir ----
	replayMismatch := 0
	if len(pend) > 0 {
		byDir := map[string][]pendingReplay{}
		for _, p := range pend {
			byDir[p.h.Dir] = append(byDir[p.h.Dir], p)
		}
		for dir, ps := range byDir {
			var jobs []replayJob
			for i, p := range ps {
				jobs = append(jobs, replayJob{Name: fmt.Sprintf("j%d", i), Entry: p.h.Entry, Witness: p.v.Replay})
			}
			out, raw, err := nativeReplay(spec, dir, jobs)
			if err != nil {
				inconclusive = append(inconclusive, "native replay failed: "+err.Error())
				continue
			}
			for i, p := range ps {
				ls, ran := out[fmt.Sprintf("j%d", i)]
				if !ran {
					inconclusive = append(inconclusive, fmt.Sprintf("native replay of %s did not run: %s", p.v.Label, lastLines(raw, 12)))
					continue
				}
				joined := strings.Join(ls, "\n")
				switch p.kind {
				case "violation":
					ok := false
					if p.v.Kind == "panic" {
						ok = strings.Contains(joined, "VREPLAY-PANIC") || strings.Contains(joined, "panic:")
					} else {
						ok = strings.Contains(joined, "VREPLAY-VIOLATION "+p.v.Label)
					}
					if ok {
						p.v.Native = "reproduced"
						validated++
					} else {
						p.v.Native = "NOT reproduced: " + joined
						replayMismatch++
					}
				case "cover":
					if strings.Contains(joined, "VREPLAY-COVER "+p.v.Label) && !strings.Contains(joined, "VREPLAY-PANIC") && !strings.Contains(joined, "VREPLAY-ASSUME-FAILED") {
						validated++
					} else {
						replayMismatch++
						inconclusive = append(inconclusive, fmt.Sprintf("%s: cover witness %q did not replay natively (translator/stub mismatch): %s", p.v.Harness, p.v.Label, joined))
					}
				}
			}
		}
	}

	// ---- verdict ----
	for id, what := range openWhat {
		if knownHit[id] > 0 {
			lines = append(lines, fmt.Sprintf("KNOWN-FINDING: property=%s %s %s", *prop, id, what))
		} else {
			lines = append(lines, fmt.Sprintf("NOTE: known finding %s is listed open but its region was not reachable in this run", id))
		}
	}
	nviol := 0
	for _, v := range violations {
		if strings.HasPrefix(v.Native, "NOT reproduced") {
			inconclusive = append(inconclusive, fmt.Sprintf("%s/%s: counterexample did not reproduce natively (%s) — encoding or stub is wrong", v.Harness, v.Label, v.Native))
			continue
		}
		nviol++
		note := v.Native
		if note == "" {
			note = "symbolic counterexample (stubbed harness: native replay not applicable)"
		}
		lines = append(lines, fmt.Sprintf("VIOLATION property=%s replay=%s harness=%s label=%q at=%s [%s] paths=%d", *prop, v.Replay, v.Harness, v.Label, v.Where, note, v.Count))
	}
	if nviol > 0 {
		exit = 1
	} else if len(inconclusive) > 0 {
		exit = 2
	}
	sort.Strings(inconclusive)
	for _, s := range inconclusive {
		lines = append(lines, "INCONCLUSIVE property="+*prop+" "+s)
	}

	// ---- evidence ----
	q, st := eng.SolverStats()
	var asl []string
	for a := range assum {
		asl = append(asl, a)
	}
	asl = append(asl, spec.Assumptions...)
	for _, s := range spec.Stubs {
		asl = append(asl, "stub: "+s)
	}
	for _, s := range spec.Outside {
		asl = append(asl, "outside the claim: "+s)
	}
	sort.Strings(asl)
	nontrivial := obligations - trivial
	if nontrivial < 0 {
		nontrivial = 0
	}
	ev := map[string]interface{}{
		"property_id": *prop,
		"tier":        *tier,
		"seed":        seed,
		"level":       "model_checking",
		"coverage": map[string]interface{}{
			"states":                        states,
			"transitions":                   transitions,
			"traces_validated_against_impl": validated,
			"samples":                       samples,
			"evaluations":                   obligations,
			"distinct_nontrivial":           nontrivial,
			"rule":                          "states = feasible symbolic paths explored to completion; transitions = symbolic branch decisions; evaluations = obligations (VAssert + implicit panic checks) met on those paths; distinct_nontrivial = obligations that needed a solver query (not decided by constant folding)",
			"obligations":                   obligations,
			"discharged":                    discharged,
			"discharged_by_solver":          obligations - trivial - countOpen(violations),
			"solver_queries":                q,
			"solver_time_s":                 st.Seconds(),
			"solver":                        solverVersion(*solver),
			"functions_encoded":             eng.FuncsEncoded(),
			"bounds":                        boundsOut,
			"engine_limits":                 map[string]int{"MaxUnwind": cfg.MaxUnwind, "MaxSteps": cfg.MaxSteps, "MaxEnum": cfg.MaxEnum, "MaxPaths": cfg.MaxPaths, "MaxDepth": cfg.MaxDepth, "solver_timeout_ms": cfg.TimeoutMs},
			"cover_goals":                   map[string]int{"declared": coverTotal, "reached": coverHit},
			"inconclusive":                  inconclusive,
			"known_findings_hit":            knownHit,
			"load_s":                        loadS,
			"explore_s":                     runS,
			"exhaustive":                    len(inconclusive) == 0,
			"explanation":                   "bounded symbolic execution of the real Go code (go/ssa, regenerated from /repo on this run) with every obligation decided by the SMT solver for all values within the stated bounds",
		},
		"assumptions": asl,
		"wall_s":      time.Since(t0).Seconds(),
		"violations":  nviol,
	}
	os.MkdirAll(filepath.Join(verifDir, "evidence"), 0o755)
	eb, _ := json.MarshalIndent(ev, "", " ")
	if !*noEvidence {
		os.WriteFile(filepath.Join(verifDir, "evidence", *prop+".json"), eb, 0o644)
	}

	if os.Getenv("SYMGO_PROGRESS") != "" {
		for _, f := range eng.ForkSites(25) {
			fmt.Fprintln(os.Stderr, "fork", f)
		}
	}
	for _, l := range lines {
		fmt.Println(l)
	}
	fmt.Printf("SUMMARY property=%s tier=%s harnesses=%d paths=%d branches=%d obligations=%d discharged=%d violations=%d inconclusive=%d covers=%d/%d native_replays_ok=%d queries=%d solver_s=%.1f load_s=%.1f wall_s=%.1f exit=%d\n",
		*prop, *tier, len(entries), states, transitions, obligations, discharged, nviol, len(inconclusive), coverHit, coverTotal, validated, q, st.Seconds(), loadS, time.Since(t0).Seconds(), exit)
	return exit
}

func countOpen(vs []*sym.Violation) int {
	n := 0
	for _, v := range vs {
		n += v.Count
	}
	return n
}

func lastLines(s string, n int) string {
	ls := strings.Split(strings.TrimSpace(s), "\n")
	if len(ls) > n {
		ls = ls[len(ls)-n:]
	}
	return strings.Join(ls, " | ")
}

func solverVersion(name string) string {
	argv := sym.SolverCmd(name, 1000)
	out, err := exec.Command(argv[0], "--version").CombinedOutput()
	if err != nil {
		return name
	}
	return strings.TrimSpace(strings.Split(string(out), "\n")[0])
}

func cmdReplay(args []string) int {
	fs := flag.NewFlagSet("replay", flag.ExitOnError)
	prop := fs.String("prop", "", "property id")
	wit := fs.String("witness", "", "witness file")
	fs.Parse(args)
	spec, err := loadSpec(*prop)
	if err != nil {
		fmt.Println(err)
		return 2
	}
	b, err := os.ReadFile(*wit)
	if err != nil {
		fmt.Println(err)
		return 2
	}
	var w struct {
		Harness string `json:"harness"`
		Label   string `json:"label"`
		Kind    string `json:"kind"`
	}
	json.Unmarshal(b, &w)
	for _, h := range spec.Harnesses {
		if h.Entry == w.Harness {
			abs, _ := filepath.Abs(*wit)
			out, raw, err := nativeReplay(spec, h.Dir, []replayJob{{Name: "j0", Entry: h.Entry, Witness: abs}})
			if err != nil {
				fmt.Println(err)
				return 2
			}
			fmt.Println(strings.Join(out["j0"], "\n"))
			if os.Getenv("SYMGO_DEBUG") != "" {
				fmt.Println(raw)
			}
			joined := strings.Join(out["j0"], "\n")
			if strings.Contains(joined, "VREPLAY-VIOLATION "+w.Label) || (w.Kind == "panic" && strings.Contains(joined, "PANIC")) {
				fmt.Printf("VIOLATION property=%s replay=%s (reproduced natively)\n", *prop, *wit)
				return 1
			}
			return 0
		}
	}
	fmt.Println("harness not found:", w.Harness)
	return 2
}
