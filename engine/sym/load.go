package sym

import (
	"fmt"
	"os"
	"strings"

	"golang.org/x/tools/go/packages"
	"golang.org/x/tools/go/ssa"
	"golang.org/x/tools/go/ssa/ssautil"
)

// Load type-checks the given package patterns of the repository (current working tree) with
// overlay files and creates (lazily built) SSA for them and all their dependencies.
func Load(repo string, patterns []string, overlay map[string][]byte) (*ssa.Program, []*ssa.Package, error) {
	cfg := &packages.Config{
		Mode:    packages.LoadAllSyntax,
		Dir:     repo,
		Overlay: overlay,
		Env:     append(os.Environ(), "GOFLAGS=-mod=mod", "GOPROXY=off", "GOSUMDB=off", "GOTOOLCHAIN=local"),
	}
	initial, err := packages.Load(cfg, patterns...)
	if err != nil {
		return nil, nil, err
	}
	var errs []string
	packages.Visit(initial, nil, func(p *packages.Package) {
		for _, e := range p.Errors {
			errs = append(errs, e.Error())
		}
	})
	if len(errs) > 0 {
		if len(errs) > 10 {
			errs = errs[:10]
		}
		return nil, nil, fmt.Errorf("package errors:\n  %s", strings.Join(errs, "\n  "))
	}
	prog, pkgs := ssautil.AllPackages(initial, ssa.InstantiateGenerics)
	for _, p := range pkgs {
		if p != nil {
			p.Build()
		}
	}
	return prog, pkgs, nil
}
