package sym

import (
	"go/token"
	"go/types"
	"unicode/utf8"

	"golang.org/x/tools/go/ssa"
)

// ---------- floats (comparison only) ----------

func (in *Interp) fp(f Float) *Term {
	return in.tb.app("(_ to_fp 11 53)", Sort{K: KBV, W: -64}, f.B)
}

func (in *Interp) floatCmp(op token.Token, a, b Float) *Term {
	tb := in.tb
	if a.B.IsConst() && b.B.IsConst() {
		x, y := f64(a.B.U), f64(b.B.U)
		var r bool
		switch op {
		case token.EQL:
			r = x == y
		case token.NEQ:
			r = x != y
		case token.LSS:
			r = x < y
		case token.LEQ:
			r = x <= y
		case token.GTR:
			r = x > y
		case token.GEQ:
			r = x >= y
		}
		return tb.Bool(r)
	}
	fa, fb := in.fp(a), in.fp(b)
	switch op {
	case token.EQL:
		return tb.app("fp.eq", SortBool, fa, fb)
	case token.NEQ:
		return tb.Not(tb.app("fp.eq", SortBool, fa, fb))
	case token.LSS:
		return tb.app("fp.lt", SortBool, fa, fb)
	case token.LEQ:
		return tb.app("fp.leq", SortBool, fa, fb)
	case token.GTR:
		return tb.app("fp.gt", SortBool, fa, fb)
	case token.GEQ:
		return tb.app("fp.geq", SortBool, fa, fb)
	}
	panic(in.abort("float op %s not modelled", op))
}

// ---------- equality ----------

func (in *Interp) equal(a, b Value) *Term {
	tb := in.tb
	a, b = in.force(a), in.force(b)
	switch x := a.(type) {
	case *Term:
		y, ok := b.(*Term)
		if !ok {
			panic(in.abort("equal: %T vs %T", a, b))
		}
		return tb.Eq(x, y)
	case Float:
		return in.floatCmp(token.EQL, x, b.(Float))
	case *Value:
		y, ok := b.(*Value)
		if !ok {
			return tb.Bool(false)
		}
		return tb.Bool(x == y)
	case Struct:
		y := b.(Struct)
		var cs []*Term
		for i := range x {
			cs = append(cs, in.equal(x[i], y[i]))
		}
		return tb.And(cs...)
	case Array:
		y := b.(Array)
		var cs []*Term
		for i := range x {
			cs = append(cs, in.equal(x[i], y[i]))
		}
		return tb.And(cs...)
	case Iface:
		y, ok := b.(Iface)
		if !ok {
			panic(in.abort("equal: iface vs %T", b))
		}
		if x.T == nil || y.T == nil {
			return tb.Bool(x.T == nil && y.T == nil)
		}
		if !types.Identical(x.T, y.T) {
			return tb.Bool(false)
		}
		return in.equal(x.V, y.V)
	case []Value:
		switch y := b.(type) {
		case []Value:
			return tb.Bool(x == nil && y == nil)
		case SymBytes:
			return tb.Bool(false)
		}
	case SymBytes:
		return tb.Bool(false) // only comparable with nil; symbolic byte strings are non-nil
	case *Map:
		y, _ := b.(*Map)
		return tb.Bool(x == y)
	case *Closure:
		y, _ := b.(*Closure)
		return tb.Bool(x == nil && y == nil)
	case *Opaque:
		y, _ := b.(*Opaque)
		return tb.Bool(x == y)
	case *nativeObj:
		y, _ := b.(*nativeObj)
		return tb.Bool(x == y)
	case nil:
		return tb.Bool(b == nil)
	}
	panic(in.abort("equal: unsupported %T", a))
}

// ---------- binary operators ----------

func (in *Interp) binop(op token.Token, xt types.Type, a, b Value, yt types.Type) Value {
	tb := in.tb
	switch op {
	case token.EQL:
		return in.equal(a, b)
	case token.NEQ:
		return tb.Not(in.equal(a, b))
	}
	if fa, ok := a.(Float); ok {
		fb := b.(Float)
		switch op {
		case token.LSS, token.LEQ, token.GTR, token.GEQ:
			return in.floatCmp(op, fa, fb)
		}
		if fa.B.IsConst() && fb.B.IsConst() {
			x, y := f64(fa.B.U), f64(fb.B.U)
			var r float64
			switch op {
			case token.ADD:
				r = x + y
			case token.SUB:
				r = x - y
			case token.MUL:
				r = x * y
			case token.QUO:
				r = x / y
			default:
				panic(in.abort("float op %s", op))
			}
			return Float{tb.BV(64, f64bits(r))}
		}
		panic(in.abort("symbolic float arithmetic (%s) is not modelled", op))
	}
	x, ok1 := a.(*Term)
	y, ok2 := b.(*Term)
	if !ok1 || !ok2 {
		panic(in.abort("binop %s on %T, %T", op, a, b))
	}
	if x.Sort.K == KStr {
		switch op {
		case token.ADD:
			return tb.Concat(x, y)
		case token.LSS:
			return tb.StrOp("str.<", SortBool, x, y)
		case token.LEQ:
			return tb.StrOp("str.<=", SortBool, x, y)
		case token.GTR:
			return tb.StrOp("str.<", SortBool, y, x)
		case token.GEQ:
			return tb.StrOp("str.<=", SortBool, y, x)
		}
		panic(in.abort("string op %s", op))
	}
	if x.Sort.K == KBool {
		panic(in.abort("bool op %s", op))
	}
	w, signed, _ := intInfo(xt)
	switch op {
	case token.ADD:
		return tb.BinBV("bvadd", x, y)
	case token.SUB:
		return tb.BinBV("bvsub", x, y)
	case token.MUL:
		return tb.BinBV("bvmul", x, y)
	case token.AND:
		return tb.BinBV("bvand", x, y)
	case token.OR:
		return tb.BinBV("bvor", x, y)
	case token.XOR:
		return tb.BinBV("bvxor", x, y)
	case token.AND_NOT:
		return tb.BinBV("bvand", x, tb.BVNot(y))
	case token.QUO, token.REM:
		in.Obligation("panic:integer divide by zero", tb.Not(tb.Eq(y, tb.BV(w, 0))), "panic")
		var o string
		switch {
		case op == token.QUO && signed:
			o = "bvsdiv"
		case op == token.QUO:
			o = "bvudiv"
		case signed:
			o = "bvsrem"
		default:
			o = "bvurem"
		}
		return tb.BinBV(o, x, y)
	case token.SHL, token.SHR:
		yw, ysigned, _ := intInfo(yt)
		if ysigned {
			in.Obligation("panic:negative shift amount", tb.CmpBV("bvsge", y, tb.BV(yw, 0)), "panic")
		}
		o := "bvshl"
		if op == token.SHR {
			o = "bvlshr"
			if signed {
				o = "bvashr"
			}
		}
		// bring the count to the operand width, saturating
		var cnt *Term
		if yw == w {
			cnt = y
		} else if yw < w {
			cnt = tb.Resize(y, w, false)
		} else {
			big := tb.CmpBV("bvuge", y, tb.BV(yw, uint64(w)))
			cnt = tb.Ite(big, tb.BV(w, uint64(w)), tb.Resize(y, w, false))
		}
		return tb.BinBV(o, x, cnt)
	case token.LSS, token.LEQ, token.GTR, token.GEQ:
		p := "bvu"
		if signed {
			p = "bvs"
		}
		s := map[token.Token]string{token.LSS: "lt", token.LEQ: "le", token.GTR: "gt", token.GEQ: "ge"}[op]
		return tb.CmpBV(p+s, x, y)
	}
	panic(in.abort("unsupported binop %s", op))
}

// ---------- conversions ----------

func (in *Interp) byteToStr(b *Term) *Term {
	if b.IsConst() {
		return in.tb.Str(string([]byte{byte(b.U)}))
	}
	// int2bv(str.to_code(s)) round trip
	if b.Op == "int2bv" && b.Args[0].Op == "str.to_code" {
		s := b.Args[0].Args[0]
		if s.Op == "str.at" {
			return s
		}
	}
	return in.tb.StrOp("str.from_code", SortStr, in.tb.BVToInt(b))
}

// bytesToStr converts a []byte value into a string term.
func (in *Interp) bytesToStr(v Value) *Term {
	switch x := v.(type) {
	case SymBytes:
		return x.S
	case []Value:
		var parts []*Term
		for _, e := range x {
			parts = append(parts, in.byteToStr(in.force(e).(*Term)))
		}
		return in.tb.Concat(in.collapseAtRuns(parts)...)
	}
	panic(in.abort("bytesToStr: %T", v))
}

// collapseAtRuns replaces runs (str.at X i), (str.at X i+1), ... by one (str.substr X i k): the two are
// equal for every X (both clip at the end of X), and the solver sees one term instead of k.
func (in *Interp) collapseAtRuns(parts []*Term) []*Term {
	isAt := func(t *Term) (*Term, int64, bool) {
		if t.Op == "str.at" && t.Args[1].IsConst() {
			return t.Args[0], int64(t.Args[1].U), true
		}
		return nil, 0, false
	}
	var out []*Term
	for i := 0; i < len(parts); {
		x, k0, ok := isAt(parts[i])
		if !ok {
			out = append(out, parts[i])
			i++
			continue
		}
		j := i + 1
		for j < len(parts) {
			y, k, ok := isAt(parts[j])
			if !ok || y != x || k != k0+int64(j-i) {
				break
			}
			j++
		}
		if j-i >= 2 {
			out = append(out, in.tb.StrOp("str.substr", SortStr, x, in.tb.Int(k0), in.tb.Int(int64(j-i))))
		} else {
			out = append(out, parts[i])
		}
		i = j
	}
	return out
}

// strToBytes converts a string term to a []byte value.
func (in *Interp) strToBytes(s *Term) Value {
	if s.IsConst() {
		out := make([]Value, len(s.S))
		for i := 0; i < len(s.S); i++ {
			out[i] = in.tb.BV(8, uint64(s.S[i]))
		}
		return out
	}
	if us, ok := in.unitParts(s); ok {
		out := make([]Value, len(us))
		for i, b := range us {
			out[i] = b
		}
		return out
	}
	return SymBytes{s}
}

func (in *Interp) convert(from, to types.Type, v Value) Value {
	tb := in.tb
	fu, tu := under(from), under(to)
	if tw, _, ok := intInfo(tu); ok {
		if _, fsigned, ok2 := intInfo(fu); ok2 {
			return tb.Resize(v.(*Term), tw, fsigned)
		}
		if f, ok2 := v.(Float); ok2 {
			if f.B.IsConst() {
				return tb.BV(tw, uint64(int64(f64(f.B.U))))
			}
			panic(in.abort("symbolic float→int conversion is not modelled"))
		}
	}
	if isFloat(tu) {
		if _, fsigned, ok := intInfo(fu); ok {
			t := v.(*Term)
			if t.IsConst() {
				if fsigned {
					return Float{tb.BV(64, f64bits(float64(sext(t.U, t.Sort.W))))}
				}
				return Float{tb.BV(64, f64bits(float64(t.U)))}
			}
			panic(in.abort("symbolic int→float conversion is not modelled"))
		}
		if f, ok := v.(Float); ok {
			return f
		}
	}
	if isString(tu) {
		if _, _, ok := intInfo(fu); ok { // string(rune)
			t := v.(*Term)
			if t.IsConst() {
				return tb.Str(string(rune(sext(t.U, t.Sort.W))))
			}
			// symbolic rune: exact for ASCII, otherwise unsupported
			in.Assume(tb.CmpBV("bvult", t, tb.BV(t.Sort.W, 0x80)))
			in.E.noteAssumption("string(rune) restricted to ASCII for symbolic runes")
			return in.byteToStr(tb.Resize(t, 8, false))
		}
		if sl, ok := fu.(*types.Slice); ok {
			if b, ok := under(sl.Elem()).(*types.Basic); ok && b.Kind() == types.Uint8 {
				return in.bytesToStr(v)
			}
			if b, ok := under(sl.Elem()).(*types.Basic); ok && b.Kind() == types.Int32 {
				rs := v.([]Value)
				buf := []byte{}
				for _, r := range rs {
					t := r.(*Term)
					if !t.IsConst() {
						panic(in.abort("string([]rune) with symbolic runes"))
					}
					buf = utf8.AppendRune(buf, rune(sext(t.U, 32)))
				}
				return tb.Str(string(buf))
			}
		}
		if isString(fu) {
			return v
		}
	}
	if sl, ok := tu.(*types.Slice); ok && isString(fu) {
		if b, ok := under(sl.Elem()).(*types.Basic); ok && b.Kind() == types.Uint8 {
			return in.strToBytes(v.(*Term))
		}
		if b, ok := under(sl.Elem()).(*types.Basic); ok && b.Kind() == types.Int32 {
			s := v.(*Term)
			if !s.IsConst() {
				us, ok := in.unitParts(s)
				if !ok {
					panic(in.abort("[]rune(symbolic string of unknown length)"))
				}
				pkg := in.E.Prog.ImportedPackage("unicode/utf8")
				if pkg == nil {
					panic(in.abort("unicode/utf8 not loaded"))
				}
				dec := pkg.Func("DecodeRuneInString")
				var out []Value
				for i := 0; i < len(us); {
					var parts []*Term
					for _, b := range us[i:] {
						parts = append(parts, in.byteToStr(b))
					}
					saved := in.curFrame
					r := in.callFn(dec, []Value{tb.Concat(parts...)}, nil).(Tuple)
					in.curFrame = saved
					out = append(out, r[0])
					n := in.concreteInt(r[1].(*Term), "rune size")
					if n <= 0 {
						n = 1
					}
					i += n
				}
				return out
			}
			var out []Value
			for _, r := range s.S {
				out = append(out, tb.BV(32, uint64(r)))
			}
			return out
		}
	}
	if _, ok := tu.(*types.Pointer); ok {
		return v
	}
	if b, ok := tu.(*types.Basic); ok && b.Kind() == types.UnsafePointer {
		return v
	}
	panic(in.abort("unsupported conversion %s → %s", from, to))
}

// ---------- indexing ----------

// boundsCheck emits the obligation idx < n (unsigned on the sign-extended 64-bit index) and returns
// a concrete index by case splitting when idx is symbolic.
func (in *Interp) concreteIndex(idx *Term, it types.Type, n int, what string) int {
	tb := in.tb
	w, signed, _ := intInfo(it)
	if w == 0 {
		w, signed = idx.Sort.W, true
	}
	i64 := tb.Resize(idx, 64, signed)
	if i64.IsConst() {
		v := int64(i64.U)
		if v < 0 || v >= int64(n) {
			in.goPanicf("index out of range [%d] with length %d (%s)", v, n, what)
		}
		return int(v)
	}
	in.Obligation("panic:index out of range", tb.CmpBV("bvult", i64, tb.BV(64, uint64(n))), "panic")
	for k := 0; k < n-1; k++ {
		if in.Branch(tb.Eq(i64, tb.BV(64, uint64(k)))) {
			return k
		}
	}
	in.assertPC(tb.Eq(i64, tb.BV(64, uint64(n-1))))
	return n - 1
}

func (in *Interp) indexAddr(x Value, idx *Term, it types.Type) Value {
	switch s := x.(type) {
	case []Value:
		return &s[in.concreteIndex(idx, it, len(s), "slice")]
	case *Value:
		if s == nil {
			in.goPanicf("nil pointer dereference (index of nil array pointer)")
		}
		a := (*s).(Array)
		return &a[in.concreteIndex(idx, it, len(a), "array")]
	case SymBytes:
		// read-only cell holding the byte
		p := new(Value)
		*p = in.strIndex(s.S, idx, it)
		return p
	}
	panic(in.abort("IndexAddr on %T", x))
}

func (in *Interp) index(x Value, idx *Term, it types.Type) Value {
	switch s := x.(type) {
	case Array:
		return copyVal(s[in.concreteIndex(idx, it, len(s), "array")])
	case *Term:
		return in.strIndex(s, idx, it)
	}
	panic(in.abort("Index on %T", x))
}

// unitParts decomposes a string term into single-byte terms when every part has a syntactically
// known length (constant text and single symbolic bytes): the byte-vector view of a string.
func (in *Interp) unitParts(s *Term) ([]*Term, bool) {
	parts := []*Term{s}
	if s.Op == "str.++" {
		parts = s.Args
	}
	var out []*Term
	for _, p := range parts {
		switch {
		case p.IsConst():
			for i := 0; i < len(p.S); i++ {
				out = append(out, in.tb.BV(8, uint64(p.S[i])))
			}
		case p.Op == "str.from_code" && p.Args[0].Op == "bv2nat" && p.Args[0].Args[0].Sort.W == 8:
			out = append(out, p.Args[0].Args[0])
		default:
			return nil, false
		}
	}
	return out, true
}

// explodeStr case-splits a symbolic string of unknown length into its byte-vector view when it is at
// most k bytes long (one path per length, fresh byte variables tied to s by an equation). It reports
// false on the path where the string is longer.
func (in *Interp) explodeStr(s *Term, k int) (*Term, bool) {
	if s.IsConst() {
		return s, true
	}
	if _, ok := in.unitParts(s); ok {
		return s, true
	}
	n := in.tb.StrLen(s, 64)
	for l := 0; l <= k; l++ {
		if !in.Branch(in.tb.Eq(n, in.tb.BV(64, uint64(l)))) {
			continue
		}
		if l == 0 {
			return in.tb.Str(""), true
		}
		var parts []*Term
		for i := 0; i < l; i++ {
			b := in.Nondet("strbyte", BVSort(8), "aux")
			parts = append(parts, in.tb.StrOp("str.from_code", SortStr, in.tb.BVToInt(b)))
		}
		e := in.tb.Concat(parts...)
		in.assertPC(in.tb.Eq(s, e))
		return e, true
	}
	return s, false
}

// allASCII decides (forking once) whether every byte of a byte-vector string is below 0x80; the Unicode
// case tables are out of reach of the executor, so callers keep non-ASCII text uninterpreted.
func (in *Interp) allASCII(s *Term) bool {
	us, ok := in.unitParts(s)
	if !ok {
		return false
	}
	c := in.tb.Bool(true)
	for _, b := range us {
		c = in.tb.And(c, in.tb.CmpBV("bvule", b, in.tb.BV(8, 0x7f)))
	}
	return in.Branch(c)
}

func (in *Interp) strIndex(s *Term, idx *Term, it types.Type) *Term {
	tb := in.tb
	if !s.IsConst() && idx.IsConst() {
		if us, ok := in.unitParts(s); ok {
			_, signed, _ := intInfo(it)
			v := int64(tb.Resize(idx, 64, signed).U)
			if v < 0 || v >= int64(len(us)) {
				in.goPanicf("index out of range [%d] with length %d (string)", v, len(us))
			}
			return us[v]
		}
	}
	w, signed, _ := intInfo(it)
	if w == 0 {
		signed = true
	}
	i64 := tb.Resize(idx, 64, signed)
	if s.IsConst() && i64.IsConst() {
		v := int64(i64.U)
		if v < 0 || v >= int64(len(s.S)) {
			in.goPanicf("index out of range [%d] with length %d (string)", v, len(s.S))
		}
		return tb.BV(8, uint64(s.S[v]))
	}
	if s.IsConst() {
		k := in.concreteIndex(idx, it, len(s.S), "string")
		return tb.BV(8, uint64(s.S[k]))
	}
	ii := tb.BVToInt(i64)
	in.Obligation("panic:index out of range", tb.And(tb.CmpBV("bvsge", i64, tb.BV(64, 0)), tb.IntCmp("<", ii, tb.StrLenInt(s))), "panic")
	if i64.IsConst() && i64.U < 64 {
		return in.materialiseByte(s, int(i64.U))
	}
	return tb.IntToBV(tb.StrOp("str.to_code", SortInt, tb.StrOp("str.at", SortStr, s, ii)), 8)
}

// strMat is the materialised prefix of a symbolic string: s = byte_0 ++ ... ++ byte_{k-1} ++ rest.
type strMat struct {
	bytes []*Term
	rest  *Term
}

// materialiseByte names byte i of a symbolic string (index already shown in bounds) as a bit-vector
// variable tied to the string by a word equation. Byte scans then reason over bit-vectors instead of
// str.at/str.to_code terms, which the string solvers decide poorly.
func (in *Interp) materialiseByte(s *Term, i int) *Term {
	m := in.strMats[s]
	if m == nil {
		m = &strMat{rest: s}
		in.strMats[s] = m
	}
	for len(m.bytes) <= i {
		b := in.Nondet("strbyte", BVSort(8), "aux")
		r := in.Nondet("strrest", SortStr, "aux")
		in.assertPC(in.tb.Eq(m.rest, in.tb.Concat(in.tb.StrOp("str.from_code", SortStr, in.tb.BVToInt(b)), r)))
		m.bytes = append(m.bytes, b)
		m.rest = r
	}
	return m.bytes[i]
}

func (in *Interp) lookup(x *ssa.Lookup, m Value, key Value) Value {
	switch mm := m.(type) {
	case *Term: // string index
		return in.strIndex(mm, key.(*Term), x.Index.Type())
	case *Map:
		if r, ok := in.mapLookupMerged(x, mm, key); ok {
			return r
		}
		var v Value
		found := false
		if mm != nil {
			v, found = in.mapGet(mm, key)
		}
		if !found {
			v = in.zero(under(x.X.Type()).(*types.Map).Elem())
		}
		if x.CommaOk {
			return Tuple{copyVal(v), in.tb.Bool(found)}
		}
		return copyVal(v)
	}
	panic(in.abort("Lookup on %T", m))
}

// mapLookupMerged handles a lookup with a symbolic scalar key in a map whose values are scalars of
// one sort without forking: the result is an if-then-else chain over the key equalities.
func (in *Interp) mapLookupMerged(x *ssa.Lookup, m *Map, key Value) (Value, bool) {
	if m == nil || len(m.entries) < 2 {
		return nil, false
	}
	k, ok := key.(*Term)
	if !ok || k.IsConst() {
		return nil, false
	}
	zero, ok := in.zero(under(x.X.Type()).(*types.Map).Elem()).(*Term)
	if !ok {
		return nil, false
	}
	tb := in.tb
	val := zero
	found := tb.Bool(false)
	for i := len(m.entries) - 1; i >= 0; i-- {
		e := m.entries[i]
		ek, ok1 := e.k.(*Term)
		ev, ok2 := in.force(e.v).(*Term)
		if !ok1 || !ok2 || ev.Sort != zero.Sort {
			return nil, false
		}
		eq := tb.Eq(ek, k)
		val = tb.Ite(eq, ev, val)
		found = tb.Or(eq, found)
	}
	if x.CommaOk {
		return Tuple{val, found}, true
	}
	return val, true
}

func (in *Interp) mapFind(m *Map, key Value) *mapEntry {
	for _, e := range m.entries {
		eq := in.equal(e.k, key)
		if in.Branch(eq) {
			return e
		}
	}
	return nil
}

func (in *Interp) mapGet(m *Map, key Value) (Value, bool) {
	if e := in.mapFind(m, key); e != nil {
		return e.v, true
	}
	return nil, false
}

func (in *Interp) mapSet(m *Map, key, val Value) {
	m.ver++
	if e := in.mapFind(m, key); e != nil {
		e.v = val
		return
	}
	m.entries = append(m.entries, &mapEntry{copyVal(key), val})
}

func (in *Interp) mapDelete(m *Map, key Value) {
	if m == nil {
		return
	}
	for i, e := range m.entries {
		if in.Branch(in.equal(e.k, key)) {
			m.ver++
			m.entries = append(m.entries[:i:i], m.entries[i+1:]...)
			return
		}
	}
}

type mapIter struct {
	entries []*mapEntry
	m       *Map
	i       int
}

type strIter struct {
	s string
	i int
}

// symStrIter ranges over the byte-vector view of a symbolic string; runes are decoded by the real
// utf8.DecodeRuneInString.
type symStrIter struct {
	us []*Term
	i  int
}

func (in *Interp) rangeIter(x Value) Value {
	switch v := x.(type) {
	case *Map:
		if v == nil {
			return &mapIter{}
		}
		snap := make([]*mapEntry, len(v.entries))
		copy(snap, v.entries)
		return &mapIter{entries: snap, m: v}
	case *Term:
		if !v.IsConst() {
			us, ok := in.unitParts(v)
			if !ok {
				panic(in.abort("range over symbolic string of unknown length at %s", in.where()))
			}
			return &symStrIter{us: us}
		}
		return &strIter{s: v.S}
	}
	panic(in.abort("Range on %T", x))
}

func (in *Interp) next(x *ssa.Next, it Value) Value {
	tb := in.tb
	switch i := it.(type) {
	case *mapIter:
		for i.i < len(i.entries) {
			e := i.entries[i.i]
			i.i++
			// skip entries deleted during iteration
			live := false
			for _, c := range i.m.entries {
				if c == e {
					live = true
				}
			}
			if live {
				return Tuple{tb.Bool(true), copyVal(e.k), copyVal(e.v)}
			}
		}
		tt := x.Type().(*types.Tuple)
		return Tuple{tb.Bool(false), in.zero(tt.At(1).Type()), in.zero(tt.At(2).Type())}
	case *symStrIter:
		if i.i >= len(i.us) {
			return Tuple{tb.Bool(false), tb.BV(64, 0), tb.BV(32, 0)}
		}
		pkg := in.E.Prog.ImportedPackage("unicode/utf8")
		if pkg == nil {
			panic(in.abort("unicode/utf8 not loaded"))
		}
		var parts []*Term
		for _, b := range i.us[i.i:] {
			parts = append(parts, in.byteToStr(b))
		}
		saved := in.curFrame
		r := in.callFn(pkg.Func("DecodeRuneInString"), []Value{tb.Concat(parts...)}, nil).(Tuple)
		in.curFrame = saved
		n := in.concreteInt(r[1].(*Term), "rune size")
		if n <= 0 {
			n = 1
		}
		k := i.i
		i.i += n
		return Tuple{tb.Bool(true), tb.BV(64, uint64(k)), r[0]}
	case *strIter:
		if i.i >= len(i.s) {
			return Tuple{tb.Bool(false), tb.BV(64, 0), tb.BV(32, 0)}
		}
		r, n := utf8.DecodeRuneInString(i.s[i.i:])
		k := i.i
		i.i += n
		return Tuple{tb.Bool(true), tb.BV(64, uint64(k)), tb.BV(32, uint64(r))}
	}
	panic(in.abort("Next on %T", it))
}

// ---------- slicing ----------

func (in *Interp) slice(fr *frame, x *ssa.Slice) Value {
	tb := in.tb
	v := in.get(fr, x.X)
	optInt := func(e ssa.Value) *Term {
		if e == nil {
			return nil
		}
		t := in.get(fr, e).(*Term)
		_, signed, _ := intInfo(e.Type())
		return tb.Resize(t, 64, signed)
	}
	lo, hi, max := optInt(x.Low), optInt(x.High), optInt(x.Max)
	sliceConcrete := func(s []Value, capN int, isNil bool) Value {
		l, h, m := 0, len(s), capN
		if lo != nil {
			l = in.concreteBound(lo, capN)
		}
		if hi != nil {
			h = in.concreteBound(hi, capN)
		}
		if max != nil {
			m = in.concreteBound(max, capN)
		}
		if l < 0 || l > h || h > m || m > capN {
			in.goPanicf("slice bounds out of range [%d:%d:%d] with capacity %d", l, h, m, capN)
		}
		if isNil {
			return []Value(nil)
		}
		return s[:capN][l:h:m]
	}
	switch s := v.(type) {
	case []Value:
		return sliceConcrete(s, cap(s), s == nil)
	case *Value:
		if s == nil {
			in.goPanicf("nil pointer dereference (slice of nil array pointer)")
		}
		a := (*s).(Array)
		return sliceConcrete([]Value(a), len(a), false)
	case *Term:
		return in.strSlice(s, lo, hi)
	case SymBytes:
		return SymBytes{in.strSlice(s.S, lo, hi)}
	}
	panic(in.abort("Slice on %T", v))
}

func (in *Interp) concreteBound(t *Term, capN int) int {
	if t.IsConst() {
		return int(int64(t.U))
	}
	in.Obligation("panic:slice bounds out of range", in.tb.CmpBV("bvule", t, in.tb.BV(64, uint64(capN))), "panic")
	for k := 0; k < capN; k++ {
		if in.Branch(in.tb.Eq(t, in.tb.BV(64, uint64(k)))) {
			return k
		}
	}
	in.assertPC(in.tb.Eq(t, in.tb.BV(64, uint64(capN))))
	return capN
}

func (in *Interp) strSlice(s *Term, lo, hi *Term) *Term {
	tb := in.tb
	if lo == nil {
		lo = tb.BV(64, 0)
	}
	n := tb.StrLen(s, 64)
	if hi == nil {
		hi = n
	}
	if s.IsConst() && lo.IsConst() && hi.IsConst() {
		l, h := int64(lo.U), int64(hi.U)
		if l < 0 || l > h || h > int64(len(s.S)) {
			in.goPanicf("slice bounds out of range [%d:%d] with length %d", l, h, len(s.S))
		}
		return tb.Str(s.S[l:h])
	}
	if lo.IsConst() && hi.IsConst() {
		if us, ok := in.unitParts(s); ok {
			l, h := int64(lo.U), int64(hi.U)
			if l < 0 || l > h || h > int64(len(us)) {
				in.goPanicf("slice bounds out of range [%d:%d] with length %d", l, h, len(us))
			}
			var parts []*Term
			for _, b := range us[l:h] {
				parts = append(parts, in.byteToStr(b))
			}
			return tb.Concat(parts...)
		}
	}
	ok := tb.And(tb.CmpBV("bvsge", lo, tb.BV(64, 0)), tb.CmpBV("bvsle", lo, hi), tb.CmpBV("bvsle", hi, n))
	in.Obligation("panic:slice bounds out of range", ok, "panic")
	li, hiI := tb.BVToInt(lo), tb.BVToInt(hi)
	return tb.StrOp("str.substr", SortStr, s, li, tb.IntSub(hiI, li))
}

// ---------- builtins ----------

func (in *Interp) lenOf(v Value) *Term {
	tb := in.tb
	switch x := v.(type) {
	case []Value:
		return tb.BV(64, uint64(len(x)))
	case SymBytes:
		return tb.StrLen(x.S, 64)
	case *Term:
		return tb.StrLen(x, 64)
	case *Map:
		if x == nil {
			return tb.BV(64, 0)
		}
		return tb.BV(64, uint64(len(x.entries)))
	case Array:
		return tb.BV(64, uint64(len(x)))
	case *Value:
		if x == nil {
			return tb.BV(64, 0)
		}
		return tb.BV(64, uint64(len((*x).(Array))))
	case *Opaque:
		return tb.BV(64, 0)
	}
	panic(in.abort("len of %T", v))
}

func (in *Interp) callBuiltin(b *ssa.Builtin, args []Value, c *ssa.CallCommon) Value {
	tb := in.tb
	switch b.Name() {
	case "len":
		return in.lenOf(args[0])
	case "cap":
		switch x := args[0].(type) {
		case []Value:
			return tb.BV(64, uint64(cap(x)))
		case SymBytes:
			return tb.StrLen(x.S, 64)
		}
		return in.lenOf(args[0])
	case "append":
		return in.appendVals(args[0], args[1])
	case "copy":
		dst, ok := args[0].([]Value)
		if !ok {
			panic(in.abort("copy into %T", args[0]))
		}
		var src []Value
		switch s := args[1].(type) {
		case []Value:
			src = s
		case *Term:
			b := in.strToBytes(s)
			bs, ok := b.([]Value)
			if !ok {
				panic(in.abort("copy from symbolic string"))
			}
			src = bs
		case SymBytes:
			if !s.S.IsConst() {
				panic(in.abort("copy from symbolic bytes"))
			}
			src = in.strToBytes(s.S).([]Value)
		default:
			panic(in.abort("copy from %T", args[1]))
		}
		n := len(src)
		if len(dst) < n {
			n = len(dst)
		}
		tmp := make([]Value, n)
		for i := 0; i < n; i++ {
			tmp[i] = copyVal(src[i])
		}
		copy(dst, tmp)
		return tb.BV(64, uint64(n))
	case "delete":
		m, _ := args[0].(*Map)
		in.mapDelete(m, args[1])
		return nil
	case "print", "println":
		return nil
	case "recover":
		return Iface{}
	case "ssa:deferstack":
		return nil
	case "ssa:wrapnilchk":
		if p, ok := args[0].(*Value); ok && p == nil {
			in.goPanicf("value method called using nil pointer")
		}
		return args[0]
	case "min", "max":
		r := args[0].(*Term)
		_, signed, _ := intInfo(c.Args[0].Type())
		for _, a := range args[1:] {
			t := a.(*Term)
			op := "bvult"
			if signed {
				op = "bvslt"
			}
			var less *Term
			if b.Name() == "min" {
				less = tb.CmpBV(op, t, r)
			} else {
				less = tb.CmpBV(op, r, t)
			}
			r = tb.Ite(less, t, r)
		}
		return r
	case "clear":
		if m, ok := args[0].(*Map); ok && m != nil {
			m.entries = nil
		}
		return nil
	}
	panic(in.abort("unsupported builtin %s", b.Name()))
}

func (in *Interp) appendVals(dst, src Value) Value {
	// string / symbolic sources
	switch s := src.(type) {
	case *Term: // append([]byte, string...)
		src = in.strToBytes(s)
	}
	if sb, ok := src.(SymBytes); ok {
		if sb.S.IsConst() {
			src = in.strToBytes(sb.S)
		} else {
			return SymBytes{in.tb.Concat(in.bytesToStr(dst), sb.S)}
		}
	}
	if db, ok := dst.(SymBytes); ok {
		return SymBytes{in.tb.Concat(db.S, in.bytesToStr(src))}
	}
	d, _ := dst.([]Value)
	s, _ := src.([]Value)
	if len(s) == 0 {
		return d
	}
	n := len(d) + len(s)
	var out []Value
	if n <= cap(d) {
		out = d[:n]
	} else {
		// Go's growth rule (amortised doubling; small-size class rounding is not modelled)
		nc := cap(d) * 2
		if nc < n {
			nc = n
		}
		out = make([]Value, n, nc)
		copy(out, d)
	}
	for i, e := range s {
		out[len(d)+i] = copyVal(e)
	}
	return out
}
