package sym

import (
	"fmt"
	"go/types"
	"os"
	"sort"
	"strings"

	"golang.org/x/tools/go/ssa"
)

// deepCopy copies a value including everything reachable through pointers, slices and maps.
func deepCopy(v Value) Value {
	switch x := v.(type) {
	case *Value:
		if x == nil {
			return x
		}
		p := new(Value)
		*p = deepCopy(*x)
		return p
	case Struct:
		c := make(Struct, len(x))
		for i := range x {
			c[i] = deepCopy(x[i])
		}
		return c
	case Array:
		c := make(Array, len(x))
		for i := range x {
			c[i] = deepCopy(x[i])
		}
		return c
	case []Value:
		if x == nil {
			return x
		}
		c := make([]Value, len(x))
		for i := range x {
			c[i] = deepCopy(x[i])
		}
		return c
	case *Map:
		if x == nil {
			return x
		}
		m := &Map{T: x.T}
		for _, e := range x.entries {
			m.entries = append(m.entries, &mapEntry{deepCopy(e.k), deepCopy(e.v)})
		}
		return m
	case Iface:
		return Iface{T: x.T, V: deepCopy(x.V)}
	case *Lazy:
		if x.forced {
			return deepCopy(x.val)
		}
		return &Lazy{src: x}
	}
	return v
}

type codecEntry struct {
	Kind string
	T    types.Type
	V    Value
}

// encodeBlob returns an opaque byte string tagged with a deep copy of the encoded value.
func (in *Interp) encodeBlob(kind string, t types.Type, v Value) SymBytes {
	name := in.uniqueName("blob." + kind)
	b := in.tb.Var(name, SortStr)
	in.nondets = append(in.nondets, nondetRec{name, b, "blob"})
	in.codecs[name] = &codecEntry{kind, t, deepCopy(v)}
	if os.Getenv("SYMGO_DEBUGJSON") != "" {
		k, _ := in.valueKey(v, 0)
		fmt.Fprintf(os.Stderr, "encodeBlob %s type=%v key=%s at %s\n", name, t, k, in.where())
	}
	// a JSON text is never empty
	in.assertPC(in.tb.Not(in.tb.Eq(b, in.tb.Str(""))))
	return SymBytes{b}
}

func (in *Interp) decodeBlob(kind string, data *Term) (*codecEntry, bool) {
	if data.Op != "var" {
		return nil, false
	}
	e, ok := in.codecs[data.S].(*codecEntry)
	if !ok || e.Kind != kind {
		return nil, false
	}
	return e, true
}

// jsonUnmarshal: typed havoc (or the tagged value for a blob produced by the Marshal stub).
func (in *Interp) jsonUnmarshal(data Value, dst Value) Value {
	di, ok := dst.(Iface)
	if !ok || di.T == nil {
		return in.NewError(in.tb.Str("json: Unmarshal(nil)"))
	}
	pt, ok := under(di.T).(*types.Pointer)
	if !ok {
		return in.NewError(in.tb.Str("json: Unmarshal(non-pointer)"))
	}
	p := di.V.(*Value)
	if p == nil {
		return in.NewError(in.tb.Str("json: Unmarshal(nil pointer)"))
	}
	dt := in.bytesToStr(data)
	if e, ok := in.decodeBlob("json", dt); ok {
		if e.T == nil {
			return Iface{} // JSON null: the destination is left unchanged
		}
		if types.Identical(e.T, pt.Elem()) {
			*p = deepCopy(e.V)
			return Iface{}
		}
		if ep, ok := under(e.T).(*types.Pointer); ok && types.Identical(ep.Elem(), pt.Elem()) {
			if sp, ok := e.V.(*Value); ok && sp != nil {
				*p = deepCopy(*sp)
				return Iface{}
			}
		}
		// decoding into interface{}: the dynamic value itself
		if it, ok := under(pt.Elem()).(*types.Interface); ok && it.NumMethods() == 0 {
			*p = Iface{T: e.T, V: deepCopy(e.V)}
			return Iface{}
		}
		// same underlying type (e.g. map[string]interface{} decoded into document.Document)
		if e.T != nil && types.Identical(under(e.T), under(pt.Elem())) {
			*p = deepCopy(e.V)
			return Iface{}
		}
		// struct encoded, different struct decoded: members are matched by their JSON names
		if sv, ok := in.structValue(e.T, e.V); ok {
			if dstT, ok := under(pt.Elem()).(*types.Struct); ok {
				if srcT, ok := under(deref(e.T)).(*types.Struct); ok {
					if out, ok := in.decodeStructByJSONName(srcT, sv, dstT); ok {
						*p = out
						return Iface{}
					} else if os.Getenv("SYMGO_DEBUGJSON") != "" {
						fmt.Fprintf(os.Stderr, "decodeStructByJSONName FAILED %s -> %s\n", e.T, pt.Elem())
					}
				}
			}
		}
		// a JSON value of one basic kind never decodes into a different basic kind
		if e.T != nil {
			_, b1 := under(e.T).(*types.Basic)
			_, b2 := under(pt.Elem()).(*types.Basic)
			_, m1 := under(e.T).(*types.Map)
			_, s1 := under(e.T).(*types.Slice)
			if (b1 && b2) || ((m1 || s1) && b2) {
				return in.NewError(in.tb.Str("json: cannot unmarshal value into Go value of different kind"))
			}
		}
	}
	key := fmt.Sprintf("json:%d:%s", dt.id, pt.Elem().String())
	if m, ok := in.memo[key]; ok {
		r := m.(*codecEntry)
		if r.Kind == "err" {
			return in.NewError(in.tb.Str("json: invalid input"))
		}
		*p = deepCopy(r.V)
		return Iface{}
	}
	if in.Choose(2) == 1 {
		in.memo[key] = &codecEntry{Kind: "err"}
		return in.NewError(in.tb.Str("json: invalid input"))
	}
	v := in.havoc(in.uniqueName("json"), pt.Elem(), 0)
	in.memo[key] = &codecEntry{Kind: "ok", V: deepCopy(v)}
	*p = v
	return Iface{}
}

func (in *Interp) jsonMarshal(v Value, kind string) Value {
	i, _ := v.(Iface)
	// a flat map of scalars marshals deterministically: the same (unmodified) object gives the same bytes
	if m, ok := i.V.(*Map); ok && m != nil {
		flat := true
		for _, e := range m.entries {
			ev := in.force(e.v)
			if iv, isI := ev.(Iface); isI {
				ev = iv.V
			}
			switch ev.(type) {
			case *Term, Float, nil:
			default:
				flat = false
			}
		}
		if flat {
			// Go marshals map members sorted by name: the bytes are a function of the member SET
			var ents []string
			for _, e := range m.entries {
				k, _ := in.valueKey(e.k, 0)
				v, _ := in.valueKey(e.v, 0)
				ents = append(ents, k+":"+v)
			}
			sort.Strings(ents)
			key := "jsonenc:" + strings.Join(ents, ",")
			if b, ok := in.memo[key]; ok {
				return Tuple{b, Iface{}}
			}
			b := in.encodeBlob(kind, i.T, i.V)
			in.memo[key] = b
			return Tuple{b, Iface{}}
		}
	}
	return Tuple{in.encodeBlob(kind, i.T, i.V), Iface{}}
}

func init() {
	extraStubs = append(extraStubs, func(e *Engine) {
		S := e.Stubs
		um := func(in *Interp, fn *ssa.Function, args []Value) (Value, bool) {
			return in.jsonUnmarshal(args[0], args[1]), true
		}
		S["encoding/json.Unmarshal"] = um
		S["github.com/square/go-jose/v3/json.Unmarshal"] = um
		ma := func(in *Interp, fn *ssa.Function, args []Value) (Value, bool) {
			return in.jsonMarshal(args[0], "json"), true
		}
		S["encoding/json.Marshal"] = ma
		S["github.com/square/go-jose/v3/json.Marshal"] = ma
		mod := e.Cfg.ModPath
		// canonical JSON of a value: a deterministic function of the value — modelled as a tagged blob
		S[mod+"/pkg/canonicalizer.MarshalCanonical"] = ma
		S[mod+"/pkg/docutil.MarshalCanonical"] = ma
		S[mod+"/pkg/encoder.EncodeToString"] = func(in *Interp, fn *ssa.Function, args []Value) (Value, bool) {
			return in.b64Encode(in.bytesToStr(args[0])), true
		}
		S[mod+"/pkg/encoder.DecodeString"] = func(in *Interp, fn *ssa.Function, args []Value) (Value, bool) {
			return in.b64Decode(args[0].(*Term)), true
		}
	})
}

// time.Parse / Time.Unix: the instant is an uninterpreted function of the text.
func init() {
	extraStubs = append(extraStubs, func(e *Engine) {
		e.Stubs["time.Parse"] = func(in *Interp, fn *ssa.Function, args []Value) (Value, bool) {
			s := args[1].(*Term)
			ok := in.noteUF(in.tb.UF("time.parse.ok", SortBool, s))
			tt := fn.Signature.Results().At(0).Type()
			z := in.zero(tt).(Struct)
			if !in.Branch(ok) {
				return Tuple{z, in.NewError(in.tb.Str("parsing time: cannot parse"))}, true
			}
			z[1] = in.noteUF(in.tb.UF("time.parse.unix", BVSort(64), s))   // ext carries the unix seconds
			z[0] = in.noteUF(in.tb.UF("time.parse.offset", BVSort(64), s)) // wall carries the zone offset (seconds east of UTC)
			return Tuple{z, Iface{}}, true
		}
		e.Stubs["(time.Time).Unix"] = func(in *Interp, fn *ssa.Function, args []Value) (Value, bool) {
			return args[0].(Struct)[1], true
		}
	})
}

func init() {
	extraStubs = append(extraStubs, func(e *Engine) {
		e.Stubs["time.Now"] = func(in *Interp, fn *ssa.Function, args []Value) (Value, bool) {
			z := in.zero(fn.Signature.Results().At(0).Type()).(Struct)
			z[1] = in.Nondet("time.now", BVSort(64), "bv")
			return z, true
		}
		e.Stubs["time.Since"] = func(in *Interp, fn *ssa.Function, args []Value) (Value, bool) {
			return in.tb.BV(64, 0), true
		}
	})
}

// ---- third-party JSON patch engine and net/url ---------------------------------------------------
func init() {
	extraStubs = append(extraStubs, func(e *Engine) {
		jp := "github.com/evanphx/json-patch."
		// DecodePatch: a blob produced by the Marshal stub is decoded structurally into
		// []map[string]*json.RawMessage (each member an opaque blob tagged with the member's value);
		// anything else is typed havoc or an error.
		e.Stubs[jp+"DecodePatch"] = func(in *Interp, fn *ssa.Function, args []Value) (Value, bool) {
			pt := fn.Signature.Results().At(0).Type()
			opT := under(pt).(*types.Slice).Elem()
			mapT := under(opT).(*types.Map)
			rawT := mapT.Elem().(*types.Pointer).Elem()
			dt := in.bytesToStr(args[0])
			ent, ok := in.decodeBlob("json", dt)
			if !ok {
				if in.Choose(2) == 1 {
					return Tuple{[]Value(nil), in.NewError(in.tb.Str("invalid JSON patch"))}, true
				}
				return Tuple{in.havoc(in.uniqueName("jsonpatch"), pt, 0), Iface{}}, true
			}
			list, isList := in.force(ent.V).([]Value)
			if !isList {
				return Tuple{[]Value(nil), in.NewError(in.tb.Str("json: cannot unmarshal into patch"))}, true
			}
			var out []Value
			for _, el := range list {
				ei, _ := in.force(el).(Iface)
				m, isMap := in.force(ei.V).(*Map)
				if ei.T == nil || !isMap {
					return Tuple{[]Value(nil), in.NewError(in.tb.Str("json: cannot unmarshal into patch operation"))}, true
				}
				op := &Map{T: mapT}
				for _, me := range m.entries {
					mv, _ := in.force(me.v).(Iface)
					_ = rawT
					if mv.T == nil {
						// JSON null decodes to a nil *json.RawMessage
						op.entries = append(op.entries, &mapEntry{me.k, (*Value)(nil)})
						continue
					}
					p := new(Value)
					*p = in.encodeBlob("json", mv.T, mv.V)
					op.entries = append(op.entries, &mapEntry{me.k, p})
				}
				out = append(out, op)
			}
			return Tuple{out, Iface{}}, true
		}
		// Patch.Apply: the third-party engine is outside the claim: result is an opaque document or an error
		e.Stubs["("+jp+"Patch).Apply"] = func(in *Interp, fn *ssa.Function, args []Value) (Value, bool) {
			if in.Choose(2) == 1 {
				return Tuple{[]Value(nil), in.NewError(in.tb.Str("json patch failed"))}, true
			}
			return Tuple{SymBytes{in.Nondet("jsonpatch.result", SortStr, "bytes")}, Iface{}}, true
		}
		e.Stubs["net/url.ParseRequestURI"] = func(in *Interp, fn *ssa.Function, args []Value) (Value, bool) {
			s := args[0].(*Term)
			ok := in.noteUF(in.tb.UF("url.validRequestURI", SortBool, s))
			if !in.Branch(ok) {
				return Tuple{(*Value)(nil), in.NewError(in.tb.Str("invalid URI for request"))}, true
			}
			p := new(Value)
			*p = in.zero(fn.Signature.Results().At(0).Type().(*types.Pointer).Elem())
			in.memo[fmt.Sprintf("url:%p", p)] = s
			return Tuple{p, Iface{}}, true
		}
		e.Stubs["net/url.Parse"] = func(in *Interp, fn *ssa.Function, args []Value) (Value, bool) {
			s := args[0].(*Term)
			ok := in.noteUF(in.tb.UF("url.parses", SortBool, s))
			if !in.Branch(ok) {
				return Tuple{(*Value)(nil), in.NewError(in.tb.Str("parse error"))}, true
			}
			p := new(Value)
			*p = in.zero(fn.Signature.Results().At(0).Type().(*types.Pointer).Elem())
			in.memo[fmt.Sprintf("url:%p", p)] = s
			return Tuple{p, Iface{}}, true
		}
		e.Stubs["(*net/url.URL).String"] = func(in *Interp, fn *ssa.Function, args []Value) (Value, bool) {
			p := args[0].(*Value)
			s, ok := in.memo[fmt.Sprintf("url:%p", p)].(*Term)
			if !ok {
				return in.tb.Fresh("url.string", SortStr), true
			}
			return in.noteUF(in.tb.UF("url.normalised", SortStr, s)), true
		}
	})
}

func init() {
	extraStubs = append(extraStubs, func(e *Engine) {
		e.Stubs["time.Unix"] = func(in *Interp, fn *ssa.Function, args []Value) (Value, bool) {
			z := in.zero(fn.Signature.Results().At(0).Type()).(Struct)
			z[1] = args[0] // ext carries the unix seconds
			return z, true
		}
		// A time.Time is (instant, zone offset): ext = unix seconds, wall = offset east of UTC in seconds
		// (0 for time.Unix / UTC()). Format renders the WALL CLOCK instant+offset and shows the offset only
		// if the layout has a zone directive; for layouts that RFC 3339 parsing accepts, the rendered text
		// parses back to (wall clock - shown offset): a literal "Z" on a non-UTC time therefore denotes a
		// different instant, exactly as in the real library.
		e.Stubs["(time.Time).UTC"] = func(in *Interp, fn *ssa.Function, args []Value) (Value, bool) {
			z := append(Struct(nil), args[0].(Struct)...)
			z[0] = in.tb.BV(64, 0)
			return z, true
		}
		e.Stubs["(time.Time).Format"] = func(in *Interp, fn *ssa.Function, args []Value) (Value, bool) {
			tb := in.tb
			t := args[0].(Struct)
			sec, off := t[1].(*Term), t[0].(*Term)
			lay := args[1].(*Term)
			if off.IsConst() && off.U == 0 && lay.IsConst() && lay.S == "2006-01-02T15:04:05Z07:00" {
				txt := in.noteUF(tb.UF("time.rfc3339", SortStr, sec))
				in.assertPC(tb.And(tb.UF("time.parse.ok", SortBool, txt), tb.Eq(tb.UF("time.parse.unix", BVSort(64), txt), sec),
					tb.Eq(tb.UF("time.parse.offset", BVSort(64), txt), tb.BV(64, 0))))
				return txt, true
			}
			if !lay.IsConst() {
				return in.noteUF(tb.UF("time.format.any", SortStr, sec, off, lay)), true
			}
			hasZone := strings.Contains(lay.S, "Z07") || strings.Contains(lay.S, "-07") || strings.Contains(lay.S, "MST")
			wall := tb.BinBV("bvadd", sec, off)
			shown := tb.BV(64, 0)
			if hasZone {
				shown = off
			}
			txt := in.noteUF(tb.UF("time.format", SortStr, wall, shown, lay))
			if strings.HasPrefix(lay.S, "2006-01-02T15:04:05") && (strings.HasSuffix(lay.S, "Z07:00") || strings.HasSuffix(lay.S, "Z")) {
				in.assertPC(tb.And(tb.UF("time.parse.ok", SortBool, txt),
					tb.Eq(tb.UF("time.parse.unix", BVSort(64), txt), tb.BinBV("bvsub", wall, shown)),
					tb.Eq(tb.UF("time.parse.offset", BVSort(64), txt), shown)))
			}
			return txt, true
		}
	})
}

// ---- crypto plumbing: hash objects, curves, base64 -----------------------------------------------
func init() {
	extraStubs = append(extraStubs, func(e *Engine) {
		e.Stubs["(crypto.Hash).Available"] = func(in *Interp, fn *ssa.Function, args []Value) (Value, bool) {
			return in.tb.Bool(true), true
		}
		// crypto.Hash.New: an object accumulating what is written; Sum(nil) = H(alg, data) (uninterpreted)
		e.Stubs["(crypto.Hash).New"] = func(in *Interp, fn *ssa.Function, args []Value) (Value, bool) {
			alg := args[0].(*Term)
			data := in.tb.Str("")
			obj := &nativeObj{kind: "hash"}
			obj.invoke = func(in *Interp, method string, a []Value) Value {
				switch method {
				case "Write":
					data = in.tb.Concat(data, in.bytesToStr(a[0]))
					return Tuple{in.lenOf(a[0]), Iface{}}
				case "Sum":
					h := in.noteUF(in.tb.UF("crypto.hash", SortStr, alg, data))

					if pre, ok := a[0].([]Value); ok && len(pre) > 0 {
						return SymBytes{in.tb.Concat(in.bytesToStr(pre), h)}
					}
					return SymBytes{h}
				case "Reset":
					data = in.tb.Str("")
					return nil
				case "Size":
					if n, ok := hashSize(alg); ok {
						return in.tb.BV(64, uint64(n))
					}
					sz := in.noteUF(in.tb.UF("crypto.hash.size", BVSort(64), alg))
					// a digest size is a small non-negative number
					in.assertPC(in.tb.And(in.tb.CmpBV("bvsle", in.tb.BV(64, 0), sz), in.tb.CmpBV("bvsle", sz, in.tb.BV(64, 64))))
					return sz
				case "BlockSize":
					return in.noteUF(in.tb.UF("crypto.hash.blocksize", BVSort(64), alg))
				}
				panic(in.abort("hash.Hash.%s is not modelled", method))
			}
			return Iface{T: fn.Signature.Results().At(0).Type(), V: obj}, true
		}
		// one-shot digests: the same uninterpreted H(alg, data) as the hash objects, as an array of fresh
		// bytes tied to the digest text by a word equation
		for name, ac := range map[string][2]int{"crypto/sha256.Sum256": {5, 32}, "crypto/sha256.Sum224": {4, 28}, "crypto/sha512.Sum384": {6, 48},
			"crypto/sha512.Sum512": {7, 64}, "crypto/sha512.Sum512_224": {14, 28}, "crypto/sha512.Sum512_256": {15, 32}} {
			ac := ac
			e.Stubs[name] = func(in *Interp, fn *ssa.Function, args []Value) (Value, bool) {
				tb := in.tb
				algT := tb.BV(64, uint64(ac[0]))
				h := in.noteUF(tb.UF("crypto.hash", SortStr, algT, in.bytesToStr(args[0])))
				arr := make(Array, ac[1])
				for i := range arr {
					arr[i] = tb.IntToBV(tb.StrOp("str.to_code", SortInt, tb.StrOp("str.at", SortStr, h, tb.Int(int64(i)))), 8)
				}
				n := tb.Int(int64(ac[1]))
				in.assertPC(tb.And(tb.IntCmp("<=", tb.StrLenInt(h), n), tb.IntCmp("<=", n, tb.StrLenInt(h))))
				return arr, true
			}
		}
		for _, n := range []string{"crypto/elliptic.P256", "crypto/elliptic.P384", "crypto/elliptic.P521", "crypto/elliptic.P224", "github.com/btcsuite/btcd/btcec.S256"} {
			e.Stubs[n] = func(in *Interp, fn *ssa.Function, args []Value) (Value, bool) {
				return in.zero(fn.Signature.Results().At(0).Type()), true
			}
		}
		b64enc := func(in *Interp, fn *ssa.Function, args []Value) (Value, bool) {
			dt := in.bytesToStr(args[1])
			key := fmt.Sprintf("b64enc:%d", dt.id)
			if m, ok := in.memo[key]; ok {
				return m, true
			}
			name := in.uniqueName("blob.b64")
			b := in.tb.Var(name, SortStr)
			in.nondets = append(in.nondets, nondetRec{name, b, "blob"})
			in.codecs[name] = &codecEntry{"b64", nil, SymBytes{dt}}
			in.memo[key] = b
			return b, true
		}
		b64dec := func(in *Interp, fn *ssa.Function, args []Value) (Value, bool) {
			s := args[1].(*Term)
			if e, ok := in.decodeBlob("b64", s); ok {
				return Tuple{e.V, Iface{}}, true
			}
			key := fmt.Sprintf("b64dec:%d", s.id)
			if m, ok := in.memo[key]; ok {
				return copyVal(m), true
			}
			var r Value
			if in.Choose(2) == 1 {
				r = Tuple{[]Value(nil), in.NewError(in.tb.Str("illegal base64 data"))}
			} else {
				r = Tuple{SymBytes{in.Nondet("b64dec", SortStr, "bytes")}, Iface{}}
			}
			in.memo[key] = r
			return r, true
		}
		_, _ = b64enc, b64dec
		e.Stubs["(*encoding/base64.Encoding).EncodeToString"] = func(in *Interp, fn *ssa.Function, args []Value) (Value, bool) {
			return in.b64Encode(in.bytesToStr(args[1])), true
		}
		e.Stubs["(*encoding/base64.Encoding).DecodeString"] = func(in *Interp, fn *ssa.Function, args []Value) (Value, bool) {
			return in.b64Decode(args[1].(*Term)), true
		}
	})
}

// ---- value-deterministic canonical JSON, multihash codec, codec consistency axioms ------------------

// valueKey fingerprints a value made of scalars, structs, pointers, slices and maps by the identities of
// its terms: equal keys mean syntactically equal values (so their canonical JSON is equal).
func (in *Interp) valueKey(v Value, depth int) (string, bool) {
	if depth > 6 {
		return "", false
	}
	// a value nobody has looked at yet is identified by its lazy cell (forcing it here would make the
	// marshaller choose the shape of every unread member: a path explosion that buys nothing)
	if l, ok := v.(*Lazy); ok && !l.forced {
		r := l
		for r.src != nil && !r.src.forced {
			r = r.src
		}
		if r.src == nil {
			return fmt.Sprintf("L%p", r), true
		}
	}
	switch x := in.force(v).(type) {
	case *Term:
		return fmt.Sprintf("t%d", x.id), true
	case nil:
		return "nil", true
	case *Value:
		if x == nil {
			return "nilptr", true
		}
		return in.valueKey(*x, depth+1)
	case Struct:
		s := "{"
		for _, f := range x {
			k, ok := in.valueKey(f, depth+1)
			if !ok {
				return "", false
			}
			s += k + ","
		}
		return s + "}", true
	case Iface:
		if x.T == nil {
			return "nil", true
		}
		k, ok := in.valueKey(x.V, depth+1)
		return "i:" + x.T.String() + ":" + k, ok
	case []Value:
		s := "["
		for _, f := range x {
			k, ok := in.valueKey(f, depth+1)
			if !ok {
				return "", false
			}
			s += k + ","
		}
		return s + "]", true
	case SymBytes:
		return fmt.Sprintf("b%d", x.S.id), true
	case Float:
		return fmt.Sprintf("f%d", x.B.id), true
	case *Map:
		if x == nil {
			return "nilmap", true
		}
		s := "m{"
		for _, e := range x.entries {
			k, ok1 := in.valueKey(e.k, depth+1)
			v, ok2 := in.valueKey(e.v, depth+1)
			if !ok1 || !ok2 {
				return "", false
			}
			s += k + ":" + v + ","
		}
		return s + "}", true
	}
	return "", false
}

type decodeRec struct {
	in  *Term // encoded text / bytes that were decoded
	ok  *Term
	out []*Term // decoded components
}

func init() {
	extraStubs = append(extraStubs, func(e *Engine) {
		mod := e.Cfg.ModPath
		// canonical JSON is a function of the value: syntactically equal values get the same blob
		canon := func(in *Interp, fn *ssa.Function, args []Value) (Value, bool) {
			i, _ := args[0].(Iface)
			if k, ok := in.valueKey(i.V, 0); ok && i.T != nil {
				key := "canon:" + under(deref(i.T)).String() + ":" + k
				if b, ok := in.memo[key]; ok {
					return Tuple{b, Iface{}}, true
				}
				b := in.encodeBlob("json", i.T, i.V)
				in.memo[key] = b
				return Tuple{b, Iface{}}, true
			}
			return in.jsonMarshal(args[0], "json"), true
		}
		e.Stubs[mod+"/pkg/canonicalizer.MarshalCanonical"] = canon
		e.Stubs[mod+"/pkg/docutil.MarshalCanonical"] = canon

		mhp := "github.com/multiformats/go-multihash."
		// multihash.Encode(digest, code): deterministic opaque bytes tagged with (digest, code)
		e.Stubs[mhp+"Encode"] = func(in *Interp, fn *ssa.Function, args []Value) (Value, bool) {
			d := in.bytesToStr(args[0])
			code := args[1].(*Term)
			key := fmt.Sprintf("mhenc:%d:%d", d.id, code.id)
			if b, ok := in.memo[key]; ok {
				return Tuple{b, Iface{}}, true
			}
			name := in.uniqueName("blob.mh")
			b := in.tb.Var(name, SortStr)
			in.nondets = append(in.nondets, nondetRec{name, b, "blob"})
			in.codecs[name] = &codecEntry{"mh", nil, Tuple{SymBytes{d}, code}}
			in.assertPC(in.tb.Not(in.tb.Eq(b, in.tb.Str("")))) // a multihash has at least its two header bytes
			// consistency with earlier decodes of foreign bytes: equal bytes decode to these components
			for _, r := range in.decodes["mh"] {
				in.assertPC(in.tb.Implies(in.tb.Eq(r.in, b), in.tb.And(r.ok, in.tb.Eq(r.out[0], d), in.tb.Eq(r.out[1], code))))
			}
			v := SymBytes{b}
			in.memo[key] = v
			return Tuple{v, Iface{}}, true
		}
		e.Stubs[mhp+"Decode"] = func(in *Interp, fn *ssa.Function, args []Value) (Value, bool) {
			s := in.bytesToStr(args[0])
			rt := fn.Signature.Results().At(0).Type().(*types.Pointer).Elem()
			mk := func(code *Term, digest Value) Value {
				z := in.zero(rt).(Struct) // Code, Name, Length, Digest
				z[0] = code
				z[2] = in.lenOf(digest) // Decode guarantees Length == len(Digest)
				z[3] = digest
				p := new(Value)
				*p = z
				return p
			}
			if ent, ok := in.decodeBlob("mh", s); ok {
				t := ent.V.(Tuple)
				return Tuple{mk(t[1].(*Term), t[0]), Iface{}}, true
			}
			key := fmt.Sprintf("mhdec:%d", s.id)
			if m, ok := in.memo[key]; ok {
				return m, true
			}
			okv := in.noteUF(in.tb.UF("multihash.decodes", SortBool, s))
			code := in.noteUF(in.tb.UF("multihash.code", BVSort(64), s))
			dig := in.noteUF(in.tb.UF("multihash.digest", SortStr, s))
			in.decodes["mh"] = append(in.decodes["mh"], &decodeRec{s, okv, []*Term{dig, code}})
			var r Value
			if in.Branch(okv) {
				r = Tuple{mk(code, SymBytes{dig}), Iface{}}
			} else {
				r = Tuple{(*Value)(nil), in.NewError(in.tb.Str("multihash too short or invalid"))}
			}
			in.memo[key] = r
			return r, true
		}
		e.Stubs[mhp+"ValidCode"] = func(in *Interp, fn *ssa.Function, args []Value) (Value, bool) {
			c := args[0].(*Term)
			if c.IsConst() && (c.U == 0x12 || c.U == 0x13) {
				return in.tb.Bool(true), true // sha2-256, sha2-512 are in the multihash table
			}
			return in.noteUF(in.tb.UF("multihash.validCode", SortBool, c)), true
		}
	})
}

// hashSize: digest length of the crypto.Hash identifiers the code base uses.
func hashSize(alg *Term) (int64, bool) {
	if !alg.IsConst() {
		return 0, false
	}
	switch alg.U {
	case 4, 14:
		return 28, true
	case 5, 15:
		return 32, true
	case 6:
		return 48, true
	case 7:
		return 64, true
	}
	return 0, false
}

func deref(t types.Type) types.Type {
	if p, ok := t.(*types.Pointer); ok {
		return p.Elem()
	}
	return t
}

// b64Encode / b64Decode: base64url as a codec pair with consistency axioms between encodings and
// decodings of foreign text (equal text decodes to the encoded bytes).
func (in *Interp) b64Encode(dt *Term) *Term {
	key := fmt.Sprintf("b64enc:%d", dt.id)
	if m, ok := in.memo[key]; ok {
		return m.(*Term)
	}
	name := in.uniqueName("blob.b64")
	b := in.tb.Var(name, SortStr)
	in.nondets = append(in.nondets, nondetRec{name, b, "blob"})
	in.codecs[name] = &codecEntry{"b64", nil, SymBytes{dt}}
	// base64url text contains no '.' and does not start with '{' (consequences of its alphabet that the code relies on);
	// it is empty exactly when the encoded bytes are
	in.assertPC(in.tb.Eq(in.tb.Eq(b, in.tb.Str("")), in.tb.Eq(dt, in.tb.Str(""))))
	in.assertPC(in.tb.Not(in.tb.StrOp("str.contains", SortBool, b, in.tb.Str("."))))
	in.assertPC(in.tb.Not(in.tb.StrOp("str.prefixof", SortBool, in.tb.Str("{"), b)))
	for _, r := range in.decodes["b64"] {
		in.assertPC(in.tb.Implies(in.tb.Eq(r.in, b), in.tb.And(r.ok, in.tb.Eq(r.out[0], dt))))
	}
	// encoding is injective
	for _, pr := range in.encoded["b64"] {
		in.assertPC(in.tb.Implies(in.tb.Eq(pr[0], b), in.tb.Eq(pr[1], dt)))
	}
	in.encoded["b64"] = append(in.encoded["b64"], [2]*Term{b, dt})
	in.memo[key] = b
	return b
}

func (in *Interp) b64Decode(s *Term) Value {
	if e, ok := in.decodeBlob("b64", s); ok {
		return Tuple{e.V, Iface{}}
	}
	key := fmt.Sprintf("b64dec:%d", s.id)
	if m, ok := in.memo[key]; ok {
		return copyVal(m)
	}
	okv := in.noteUF(in.tb.UF("base64.decodes", SortBool, s))
	out := in.noteUF(in.tb.UF("base64.decoded", SortStr, s))
	for _, pr := range in.encoded["b64"] {
		in.assertPC(in.tb.Implies(in.tb.Eq(s, pr[0]), in.tb.And(okv, in.tb.Eq(out, pr[1]))))
	}
	in.decodes["b64"] = append(in.decodes["b64"], &decodeRec{s, okv, []*Term{out}})
	var r Value
	if in.Branch(okv) {
		r = Tuple{SymBytes{out}, Iface{}}
	} else {
		r = Tuple{[]Value(nil), in.NewError(in.tb.Str("illegal base64 data"))}
	}
	in.memo[key] = r
	return r
}

// ---- strings.Builder internals that use unsafe; number parsing/formatting as uninterpreted functions ----
func init() {
	extraStubs = append(extraStubs, func(e *Engine) {
		e.Stubs["(*strings.Builder).copyCheck"] = func(in *Interp, fn *ssa.Function, args []Value) (Value, bool) { return nil, true }
		e.Stubs["(*strings.Builder).String"] = func(in *Interp, fn *ssa.Function, args []Value) (Value, bool) {
			p := args[0].(*Value)
			st := (*p).(Struct) // addr *Builder; buf []byte
			return in.bytesToStr(in.force(st[1])), true
		}
		e.Stubs["(*strings.Builder).Grow"] = func(in *Interp, fn *ssa.Function, args []Value) (Value, bool) { return nil, true }
		e.Stubs["strconv.ParseFloat"] = func(in *Interp, fn *ssa.Function, args []Value) (Value, bool) {
			s := args[0].(*Term)
			ok := in.noteUF(in.tb.UF("strconv.parsesAsFloat", SortBool, s))
			if !in.Branch(ok) {
				return Tuple{Float{in.tb.BV(64, 0)}, in.NewError(in.tb.Str("strconv.ParseFloat: invalid syntax"))}, true
			}
			return Tuple{Float{in.noteUF(in.tb.UF("strconv.floatBits", BVSort(64), s))}, Iface{}}, true
		}
		e.Stubs["strconv.FormatFloat"] = func(in *Interp, fn *ssa.Function, args []Value) (Value, bool) {
			f := args[0].(Float)
			return in.noteUF(in.tb.UF("strconv.formatFloat", SortStr, f.B, args[1].(*Term), args[2].(*Term))), true
		}
	})
}

func init() {
	extraStubs = append(extraStubs, func(e *Engine) {
		id := func(in *Interp, fn *ssa.Function, args []Value) (Value, bool) { return args[0], true }
		e.Stubs["internal/stringslite.Clone"] = id
		e.Stubs["strings.Clone"] = id
		e.Stubs["strconv.cloneString"] = id
	})
}

func init() {
	extraStubs = append(extraStubs, func(e *Engine) {
		e.Stubs["math.Float64bits"] = func(in *Interp, fn *ssa.Function, args []Value) (Value, bool) {
			return args[0].(Float).B, true
		}
		e.Stubs["math.Float64frombits"] = func(in *Interp, fn *ssa.Function, args []Value) (Value, bool) {
			return Float{args[0].(*Term)}, true
		}
	})
}

func jsonName(f *types.Var, tag string) (string, bool) {
	name := f.Name()
	if i := strings.Index(tag, `json:"`); i >= 0 {
		rest := tag[i+6:]
		if j := strings.IndexByte(rest, '"'); j >= 0 {
			n := strings.Split(rest[:j], ",")[0]
			if n == "-" {
				return "", false
			}
			if n != "" {
				name = n
			}
		}
	}
	return name, f.Exported()
}

func (in *Interp) structValue(t types.Type, v Value) (Struct, bool) {
	if t == nil {
		return nil, false
	}
	v = in.force(v)
	if p, ok := v.(*Value); ok {
		if p == nil {
			return nil, false
		}
		v = in.force(*p)
	}
	s, ok := v.(Struct)
	return s, ok
}

// decodeStructByJSONName fills a zero dst struct from the members of src that share a JSON name and a type.
func (in *Interp) decodeStructByJSONName(srcT *types.Struct, src Struct, dstT *types.Struct) (Value, bool) {
	out := in.zero(dstT).(Struct)
	for i := 0; i < dstT.NumFields(); i++ {
		dn, ok := jsonName(dstT.Field(i), dstT.Tag(i))
		if !ok {
			continue
		}
		for j := 0; j < srcT.NumFields(); j++ {
			sn, ok := jsonName(srcT.Field(j), srcT.Tag(j))
			if !ok || sn != dn {
				continue
			}
			if !types.Identical(srcT.Field(j).Type(), dstT.Field(i).Type()) {
				// members of different Go types: go through the JSON form of the member, honouring custom
				// (Un)MarshalJSON methods on either side (e.g. base64-encoded byte buffers vs. strings)
				v, present, ok := in.convertMemberViaJSON(srcT.Field(j).Type(), src[j], dstT.Field(i).Type(), strings.Contains(srcT.Tag(j), "omitempty"))
				if !ok {
					return nil, false
				}
				if present {
					out[i] = v
				}
				if os.Getenv("SYMGO_DEBUGJSON") != "" {
					fmt.Fprintf(os.Stderr, "  member %s present=%v v=%v\n", dn, present, v)
				}
				continue
			}
			out[i] = deepCopy(src[j])
			if os.Getenv("SYMGO_DEBUGJSON") != "" {
				fmt.Fprintf(os.Stderr, "  member %s copied %v\n", dn, src[j])
			}
		}
	}
	return out, true
}

// jsonMethod finds MarshalJSON / UnmarshalJSON in the method set of t (value or pointer receiver).
func (in *Interp) jsonMethod(t types.Type, name string) *ssa.Function {
	sel := in.E.Prog.MethodSets.MethodSet(t).Lookup(nil, name)
	if sel == nil {
		return nil
	}
	return in.E.Prog.MethodValue(sel)
}

// convertMemberViaJSON converts one struct member from its source type to a different destination type the
// way encoding/json would: marshal the source member (custom MarshalJSON if it has one), unmarshal into the
// destination member (custom UnmarshalJSON if it has one). present=false means the member is omitted.
func (in *Interp) convertMemberViaJSON(srcT types.Type, srcV Value, dstT types.Type, omitEmpty bool) (v Value, present, ok bool) {
	srcV = in.force(srcV)
	if os.Getenv("SYMGO_DEBUGJSON") != "" {
		fmt.Fprintf(os.Stderr, "convertMember %s -> %s (%T) marshal=%v unmarshal=%v/%v\n", srcT, dstT, srcV, in.jsonMethod(srcT, "MarshalJSON") != nil, in.jsonMethod(dstT, "UnmarshalJSON") != nil, in.jsonMethod(types.NewPointer(dstT), "UnmarshalJSON") != nil)
	}
	// omitted / null members
	if p, isPtr := srcV.(*Value); isPtr && p == nil {
		return nil, false, true
	}
	if t, isTerm := srcV.(*Term); isTerm && omitEmpty && t.IsConst() && t.Sort.K == KStr && t.S == "" {
		return nil, false, true
	}
	if t, isTerm := srcV.(*Term); isTerm && omitEmpty && !t.IsConst() && t.Sort.K == KStr {
		if in.Branch(in.tb.Eq(t, in.tb.Str(""))) {
			return nil, false, true
		}
	}
	var blob Value
	if m := in.jsonMethod(srcT, "MarshalJSON"); m != nil && m.Signature.Params().Len() == 0 {
		saved := in.curFrame
		r := in.callFn(m, []Value{srcV}, nil).(Tuple)
		in.curFrame = saved
		if e, isI := r[1].(Iface); isI && e.T != nil {
			return nil, false, false
		}
		blob = r[0]
	} else {
		r := in.jsonMarshal(Iface{T: srcT, V: srcV}, "json").(Tuple)
		blob = r[0]
	}
	// destination
	if pt, isPtr := under(dstT).(*types.Pointer); isPtr {
		if m := in.jsonMethod(dstT, "UnmarshalJSON"); m != nil {
			q := new(Value)
			*q = in.zero(pt.Elem())
			saved := in.curFrame
			r := in.callFn(m, []Value{q, blob}, nil)
			in.curFrame = saved
			if e, isI := r.(Iface); isI && e.T != nil {
				return nil, false, false
			}
			return q, true, true
		}
	}
	q := new(Value)
	*q = in.zero(dstT)
	if m := in.jsonMethod(types.NewPointer(dstT), "UnmarshalJSON"); m != nil {
		saved := in.curFrame
		r := in.callFn(m, []Value{q, blob}, nil)
		in.curFrame = saved
		if e, isI := r.(Iface); isI && e.T != nil {
			return nil, false, false
		}
		return *q, true, true
	}
	if e, isI := in.jsonUnmarshal(blob, Iface{T: types.NewPointer(dstT), V: q}).(Iface); isI && e.T != nil {
		return nil, false, false
	}
	return *q, true, true
}
