// Package sym is a symbolic executor for go/ssa with an SMT back end.
package sym

import (
	"fmt"
	"math/bits"
	"strconv"
	"strings"
)

// Kind of an SMT sort.
type Kind uint8

const (
	KBool Kind = iota
	KBV
	KStr
	KInt
)

// Sort of a term.
type Sort struct {
	K Kind
	W int // bit width for KBV
}

var (
	SortBool = Sort{K: KBool}
	SortStr  = Sort{K: KStr}
	SortInt  = Sort{K: KInt}
)

func BVSort(w int) Sort { return Sort{K: KBV, W: w} }

func (s Sort) SMT() string {
	switch s.K {
	case KBool:
		return "Bool"
	case KBV:
		return fmt.Sprintf("(_ BitVec %d)", s.W)
	case KStr:
		return "String"
	case KInt:
		return "Int"
	}
	return "?"
}

// Term is a node of the (hash-consed) term DAG.
type Term struct {
	Op   string // "const", "var", or an SMT operator name; "uf:<name>" for uninterpreted applications
	Sort Sort
	Args []*Term
	U    uint64 // constant payload for BV / Bool (0/1) / Int
	S    string // constant payload for String, name for var
	P1   int    // extract hi / extension amount
	P2   int    // extract lo
	id   int
}

func (t *Term) IsConst() bool { return t.Op == "const" }
func (t *Term) IsTrue() bool  { return t.Op == "const" && t.Sort.K == KBool && t.U == 1 }
func (t *Term) IsFalse() bool { return t.Op == "const" && t.Sort.K == KBool && t.U == 0 }

// TB builds and interns terms. One TB per executed path (not goroutine safe).
type TB struct {
	tab   map[string]*Term
	next  int
	fresh int
}

func NewTB() *TB { return &TB{tab: map[string]*Term{}} }

func (tb *TB) intern(t *Term) *Term {
	var sb strings.Builder
	sb.WriteString(t.Op)
	sb.WriteByte('|')
	sb.WriteString(strconv.Itoa(int(t.Sort.K)))
	sb.WriteByte(':')
	sb.WriteString(strconv.Itoa(t.Sort.W))
	if t.Op == "const" || t.Op == "var" {
		sb.WriteByte('|')
		sb.WriteString(strconv.FormatUint(t.U, 16))
		sb.WriteByte('|')
		sb.WriteString(t.S)
	} else {
		sb.WriteByte('|')
		sb.WriteString(strconv.Itoa(t.P1))
		sb.WriteByte(',')
		sb.WriteString(strconv.Itoa(t.P2))
		for _, a := range t.Args {
			sb.WriteByte(' ')
			sb.WriteString(strconv.Itoa(a.id))
		}
	}
	k := sb.String()
	if o, ok := tb.tab[k]; ok {
		return o
	}
	tb.next++
	t.id = tb.next
	tb.tab[k] = t
	return t
}

func mask(w int) uint64 {
	if w >= 64 {
		return ^uint64(0)
	}
	return (uint64(1) << uint(w)) - 1
}

func (tb *TB) Bool(b bool) *Term {
	u := uint64(0)
	if b {
		u = 1
	}
	return tb.intern(&Term{Op: "const", Sort: SortBool, U: u})
}
func (tb *TB) BV(w int, u uint64) *Term {
	return tb.intern(&Term{Op: "const", Sort: BVSort(w), U: u & mask(w)})
}
func (tb *TB) Int(u int64) *Term {
	return tb.intern(&Term{Op: "const", Sort: SortInt, U: uint64(u)})
}
func (tb *TB) Str(s string) *Term {
	return tb.intern(&Term{Op: "const", Sort: SortStr, S: s})
}
func (tb *TB) Var(name string, s Sort) *Term {
	return tb.intern(&Term{Op: "var", Sort: s, S: name})
}
func (tb *TB) Fresh(prefix string, s Sort) *Term {
	tb.fresh++
	return tb.Var(fmt.Sprintf("%s!%d", prefix, tb.fresh), s)
}

func (tb *TB) app(op string, s Sort, args ...*Term) *Term {
	return tb.intern(&Term{Op: op, Sort: s, Args: args})
}

// UF builds an uninterpreted function application.
func (tb *TB) UF(name string, ret Sort, args ...*Term) *Term {
	return tb.intern(&Term{Op: "uf:" + name, Sort: ret, Args: args})
}

func sext(u uint64, w int) int64 {
	if w >= 64 {
		return int64(u)
	}
	sh := uint(64 - w)
	return int64(u<<sh) >> sh
}

// ---------- boolean ----------

func (tb *TB) Not(a *Term) *Term {
	if a.IsConst() {
		return tb.Bool(a.U == 0)
	}
	if a.Op == "not" {
		return a.Args[0]
	}
	return tb.app("not", SortBool, a)
}

func (tb *TB) And(as ...*Term) *Term {
	var out []*Term
	for _, a := range as {
		if a.IsFalse() {
			return a
		}
		if a.IsTrue() {
			continue
		}
		if a.Op == "and" {
			out = append(out, a.Args...)
			continue
		}
		out = append(out, a)
	}
	out = dedup(out)
	for _, a := range out {
		for _, b := range out {
			if a.Op == "not" && a.Args[0] == b {
				return tb.Bool(false)
			}
		}
	}
	switch len(out) {
	case 0:
		return tb.Bool(true)
	case 1:
		return out[0]
	}
	return tb.app("and", SortBool, out...)
}

func dedup(ts []*Term) []*Term {
	seen := map[*Term]bool{}
	var out []*Term
	for _, t := range ts {
		if !seen[t] {
			seen[t] = true
			out = append(out, t)
		}
	}
	return out
}

func (tb *TB) Or(as ...*Term) *Term {
	var out []*Term
	for _, a := range as {
		if a.IsTrue() {
			return a
		}
		if a.IsFalse() {
			continue
		}
		if a.Op == "or" {
			out = append(out, a.Args...)
			continue
		}
		out = append(out, a)
	}
	out = dedup(out)
	for _, a := range out {
		for _, b := range out {
			if a.Op == "not" && a.Args[0] == b {
				return tb.Bool(true)
			}
		}
	}
	switch len(out) {
	case 0:
		return tb.Bool(false)
	case 1:
		return out[0]
	}
	return tb.app("or", SortBool, out...)
}

func (tb *TB) Implies(a, b *Term) *Term { return tb.Or(tb.Not(a), b) }

func (tb *TB) Ite(c, a, b *Term) *Term {
	if c.IsTrue() {
		return a
	}
	if c.IsFalse() {
		return b
	}
	if a == b {
		return a
	}
	if a.Sort.K == KBool {
		if a.IsTrue() && b.IsFalse() {
			return c
		}
		if a.IsFalse() && b.IsTrue() {
			return tb.Not(c)
		}
		if a.IsTrue() {
			return tb.Or(c, b)
		}
		if a.IsFalse() {
			return tb.And(tb.Not(c), b)
		}
		if b.IsTrue() {
			return tb.Or(tb.Not(c), a)
		}
		if b.IsFalse() {
			return tb.And(c, a)
		}
	}
	return tb.app("ite", a.Sort, c, a, b)
}

func (tb *TB) Eq(a, b *Term) *Term {
	if a == b {
		return tb.Bool(true)
	}
	if a.Sort != b.Sort {
		panic(fmt.Sprintf("Eq: sort mismatch %v %v (%s / %s)", a.Sort, b.Sort, a.Op, b.Op))
	}
	if a.IsConst() && b.IsConst() {
		return tb.Bool(a.U == b.U && a.S == b.S)
	}
	if a.Sort.K == KBool {
		if a.IsTrue() {
			return b
		}
		if b.IsTrue() {
			return a
		}
		if a.IsFalse() {
			return tb.Not(b)
		}
		if b.IsFalse() {
			return tb.Not(a)
		}
	}
	if a.Sort.K == KStr {
		// distinct-length / distinct-prefix constant reasoning
		if r, ok := tb.strEqQuick(a, b); ok {
			return tb.Bool(r)
		}
	}
	if a.Sort.K == KBV {
		if la, lb, ok := tb.liftPair(a, b); ok {
			return tb.Eq(la, lb)
		}
		// ite(c, k1, k2) == k  folding
		if b.IsConst() && a.Op == "ite" && a.Args[1].IsConst() && a.Args[2].IsConst() {
			return tb.Ite(a.Args[0], tb.Eq(a.Args[1], b), tb.Eq(a.Args[2], b))
		}
		if a.IsConst() && b.Op == "ite" && b.Args[1].IsConst() && b.Args[2].IsConst() {
			return tb.Ite(b.Args[0], tb.Eq(b.Args[1], a), tb.Eq(b.Args[2], a))
		}
	}
	if a.id > b.id {
		a, b = b, a
	}
	return tb.app("=", SortBool, a, b)
}

// strEqQuick decides equality of string terms syntactically when possible.
func (tb *TB) strEqQuick(a, b *Term) (bool, bool) {
	// const vs concat with const prefix that mismatches
	pa, ca := constPrefix(a)
	pb, cb := constPrefix(b)
	n := len(pa)
	if len(pb) < n {
		n = len(pb)
	}
	if pa[:n] != pb[:n] {
		return false, true
	}
	if ca && !cb && len(pb) > len(pa) {
		return false, true
	}
	if cb && !ca && len(pa) > len(pb) {
		return false, true
	}
	return false, false
}

// constPrefix returns the constant prefix of a string term and whether the term is entirely constant.
func constPrefix(t *Term) (string, bool) {
	if t.IsConst() {
		return t.S, true
	}
	if t.Op == "str.++" && t.Args[0].IsConst() {
		return t.Args[0].S, false
	}
	return "", false
}

// ---------- bit-vectors ----------

// BinBV builds a binary BV operator (result BV of same width).
func (tb *TB) BinBV(op string, a, b *Term) *Term {
	w := a.Sort.W
	if a.Sort != b.Sort {
		panic(fmt.Sprintf("BinBV %s: sort mismatch %v %v", op, a.Sort, b.Sort))
	}
	if a.IsConst() && b.IsConst() {
		x, y := a.U, b.U
		var r uint64
		ok := true
		switch op {
		case "bvadd":
			r = x + y
		case "bvsub":
			r = x - y
		case "bvmul":
			r = x * y
		case "bvand":
			r = x & y
		case "bvor":
			r = x | y
		case "bvxor":
			r = x ^ y
		case "bvshl":
			if y >= uint64(w) {
				r = 0
			} else {
				r = x << y
			}
		case "bvlshr":
			if y >= uint64(w) {
				r = 0
			} else {
				r = x >> y
			}
		case "bvashr":
			sx := sext(x, w)
			if y >= uint64(w) {
				y = uint64(w - 1)
			}
			r = uint64(sx >> y)
		case "bvudiv":
			if y == 0 {
				ok = false
			} else {
				r = x / y
			}
		case "bvurem":
			if y == 0 {
				ok = false
			} else {
				r = x % y
			}
		case "bvsdiv":
			if y == 0 {
				ok = false
			} else {
				sx, sy := sext(x, w), sext(y, w)
				if sy == -1 {
					r = uint64(-sx)
				} else {
					r = uint64(sx / sy)
				}
			}
		case "bvsrem":
			if y == 0 {
				ok = false
			} else {
				sx, sy := sext(x, w), sext(y, w)
				if sy == -1 {
					r = 0
				} else {
					r = uint64(sx % sy)
				}
			}
		default:
			ok = false
		}
		if ok {
			return tb.BV(w, r)
		}
	}
	// identities
	switch op {
	case "bvadd":
		if a.IsConst() && a.U == 0 {
			return b
		}
		if b.IsConst() && b.U == 0 {
			return a
		}
		// (x + c1) + c2
		if b.IsConst() && a.Op == "bvadd" && a.Args[1].IsConst() {
			return tb.BinBV("bvadd", a.Args[0], tb.BV(w, a.Args[1].U+b.U))
		}
	case "bvsub":
		if b.IsConst() && b.U == 0 {
			return a
		}
		if a == b {
			return tb.BV(w, 0)
		}
		if b.IsConst() {
			return tb.BinBV("bvadd", a, tb.BV(w, -b.U))
		}
	case "bvmul":
		if a.IsConst() && a.U == 1 {
			return b
		}
		if b.IsConst() && b.U == 1 {
			return a
		}
		if (a.IsConst() && a.U == 0) || (b.IsConst() && b.U == 0) {
			return tb.BV(w, 0)
		}
	case "bvand":
		if a == b {
			return a
		}
		if (a.IsConst() && a.U == 0) || (b.IsConst() && b.U == 0) {
			return tb.BV(w, 0)
		}
		if a.IsConst() && a.U == mask(w) {
			return b
		}
		if b.IsConst() && b.U == mask(w) {
			return a
		}
	case "bvor":
		if a == b {
			return a
		}
		if a.IsConst() && a.U == 0 {
			return b
		}
		if b.IsConst() && b.U == 0 {
			return a
		}
	case "bvxor":
		if a == b {
			return tb.BV(w, 0)
		}
	case "bvshl", "bvlshr", "bvashr":
		if b.IsConst() && b.U == 0 {
			return a
		}
	}
	t := tb.app(op, a.Sort, a, b)
	return t
}

// liftInt expresses a BV term built from string lengths (int2bv of an Int), small constants and
// +/- as a mathematical Int term. Go lengths are < 2^63 and the constants involved are small, so
// the 64-bit arithmetic cannot wrap. Returns ok only if the term contains a length.
func (tb *TB) liftInt(t *Term) (*Term, bool) {
	r, hasLen, ok := tb.liftRec(t)
	if !ok || !hasLen {
		return nil, false
	}
	return r, true
}

func (tb *TB) liftRec(t *Term) (*Term, bool, bool) {
	switch {
	case t.Op == "int2bv":
		return t.Args[0], true, true
	case t.IsConst() && t.Sort.K == KBV:
		v := sext(t.U, t.Sort.W)
		if v > -(1<<40) && v < (1<<40) {
			return tb.Int(v), false, true
		}
	case t.Op == "bvadd" || t.Op == "bvsub":
		a, ha, oka := tb.liftRec(t.Args[0])
		b, hb, okb := tb.liftRec(t.Args[1])
		if oka && okb && (ha || hb) {
			if t.Op == "bvadd" {
				return tb.IntAdd(a, b), true, true
			}
			return tb.IntSub(a, b), true, true
		}
	}
	return nil, false, false
}

// bvAsInt converts an arbitrary BV term to Int (signed or unsigned interpretation).
func (tb *TB) bvAsInt(b *Term, signed bool) *Term {
	if b.IsConst() {
		if signed {
			return tb.Int(sext(b.U, b.Sort.W))
		}
		return tb.Int(int64(b.U)) // callers never pass constants >= 2^63 here (guarded)
	}
	n := tb.app("bv2nat", SortInt, b)
	if !signed {
		return n
	}
	w := b.Sort.W
	var two *Term
	if w >= 64 {
		two = tb.intern(&Term{Op: "raw", Sort: SortInt, S: "18446744073709551616"})
	} else {
		two = tb.Int(int64(1) << uint(w))
	}
	return tb.Ite(tb.app("bvslt", SortBool, b, tb.BV(w, 0)), tb.app("-", SortInt, n, two), n)
}

func (tb *TB) liftPair(a, b *Term) (*Term, *Term, bool) {
	la, oka := tb.liftInt(a)
	lb, okb := tb.liftInt(b)
	if !oka && !okb {
		return nil, nil, false
	}
	if !oka {
		if a.IsConst() && a.U >= 1<<63 {
			return nil, nil, false
		}
		la = tb.bvAsInt(a, false)
	}
	if !okb {
		if b.IsConst() && b.U >= 1<<63 {
			return nil, nil, false
		}
		lb = tb.bvAsInt(b, false)
	}
	return la, lb, true
}

// CmpBV builds a comparison: op in bvult bvule bvugt bvuge bvslt bvsle bvsgt bvsge.
func (tb *TB) CmpBV(op string, a, b *Term) *Term {
	w := a.Sort.W
	if a.Sort != b.Sort {
		panic(fmt.Sprintf("CmpBV %s: sort mismatch %v %v", op, a.Sort, b.Sort))
	}
	if a.IsConst() && b.IsConst() {
		var r bool
		switch op {
		case "bvult":
			r = a.U < b.U
		case "bvule":
			r = a.U <= b.U
		case "bvugt":
			r = a.U > b.U
		case "bvuge":
			r = a.U >= b.U
		case "bvslt":
			r = sext(a.U, w) < sext(b.U, w)
		case "bvsle":
			r = sext(a.U, w) <= sext(b.U, w)
		case "bvsgt":
			r = sext(a.U, w) > sext(b.U, w)
		case "bvsge":
			r = sext(a.U, w) >= sext(b.U, w)
		}
		return tb.Bool(r)
	}
	if a == b {
		switch op {
		case "bvule", "bvuge", "bvsle", "bvsge":
			return tb.Bool(true)
		default:
			return tb.Bool(false)
		}
	}
	switch op {
	case "bvult":
		return tb.Not(tb.CmpBV("bvule", b, a))
	case "bvugt":
		return tb.Not(tb.CmpBV("bvule", a, b))
	case "bvuge":
		return tb.CmpBV("bvule", b, a)
	case "bvslt":
		return tb.Not(tb.CmpBV("bvsle", b, a))
	case "bvsgt":
		return tb.Not(tb.CmpBV("bvsle", a, b))
	case "bvsge":
		return tb.CmpBV("bvsle", b, a)
	}
	// lengths: compare as mathematical integers (values are in [0, 2^31) by construction;
	// a signed constant is interpreted as signed)
	if la, lb, ok := tb.liftPairSigned(op, a, b); ok {
		iop := map[string]string{"bvult": "<", "bvule": "<=", "bvugt": ">", "bvuge": ">=",
			"bvslt": "<", "bvsle": "<=", "bvsgt": ">", "bvsge": ">="}[op]
		return tb.IntCmp(iop, la, lb)
	}
	return tb.app(op, SortBool, a, b)
}

func (tb *TB) liftPairSigned(op string, a, b *Term) (*Term, *Term, bool) {
	signed := strings.HasPrefix(op, "bvs")
	la, oka := tb.liftInt(a)
	lb, okb := tb.liftInt(b)
	if !oka && !okb {
		return nil, nil, false
	}
	if a.Sort.W != 64 {
		return nil, nil, false
	}
	if !oka {
		if !signed && a.IsConst() && a.U >= 1<<63 {
			return nil, nil, false
		}
		la = tb.bvAsInt(a, signed)
	}
	if !okb {
		if !signed && b.IsConst() && b.U >= 1<<63 {
			return nil, nil, false
		}
		lb = tb.bvAsInt(b, signed)
	}
	return la, lb, true
}

func (tb *TB) IntCmp(op string, a, b *Term) *Term {
	if a.IsConst() && b.IsConst() {
		x, y := int64(a.U), int64(b.U)
		var r bool
		switch op {
		case "<":
			r = x < y
		case "<=":
			r = x <= y
		case ">":
			r = x > y
		case ">=":
			r = x >= y
		}
		return tb.Bool(r)
	}
	// canonical form: everything is expressed with <= (so that a condition and its negation spelled
	// differently share one atom for the known-literal cache)
	switch op {
	case "<":
		return tb.Not(tb.IntCmp("<=", b, a))
	case ">":
		return tb.Not(tb.IntCmp("<=", a, b))
	case ">=":
		return tb.IntCmp("<=", b, a)
	}
	// str.len x >= 0 etc.
	if a.IsConst() && b.Op == "str.len" && int64(a.U) <= 0 {
		return tb.Bool(true)
	}
	if a.Op == "str.len" && b.IsConst() {
		y := int64(b.U)
		if (op == ">=" && y <= 0) || (op == ">" && y < 0) {
			return tb.Bool(true)
		}
		if (op == "<" && y <= 0) || (op == "<=" && y < 0) {
			return tb.Bool(false)
		}
	}
	return tb.app(op, SortBool, a, b)
}

func (tb *TB) IntAdd(a, b *Term) *Term {
	if a.IsConst() && b.IsConst() {
		return tb.Int(int64(a.U) + int64(b.U))
	}
	if a.IsConst() && a.U == 0 {
		return b
	}
	if b.IsConst() && b.U == 0 {
		return a
	}
	return tb.app("+", SortInt, a, b)
}

func (tb *TB) IntSub(a, b *Term) *Term {
	if a.IsConst() && b.IsConst() {
		return tb.Int(int64(a.U) - int64(b.U))
	}
	if b.IsConst() && b.U == 0 {
		return a
	}
	return tb.app("-", SortInt, a, b)
}

func (tb *TB) BVNot(a *Term) *Term {
	if a.IsConst() {
		return tb.BV(a.Sort.W, ^a.U)
	}
	return tb.app("bvnot", a.Sort, a)
}

func (tb *TB) BVNeg(a *Term) *Term {
	if a.IsConst() {
		return tb.BV(a.Sort.W, -a.U)
	}
	return tb.app("bvneg", a.Sort, a)
}

// Resize converts a BV term to width w (truncate, or zero/sign extend).
func (tb *TB) Resize(a *Term, w int, signed bool) *Term {
	aw := a.Sort.W
	if aw == w {
		return a
	}
	if a.IsConst() {
		if w < aw {
			return tb.BV(w, a.U)
		}
		if signed {
			return tb.BV(w, uint64(sext(a.U, aw)))
		}
		return tb.BV(w, a.U)
	}
	if w < aw {
		if (a.Op == "zext" || a.Op == "sext") && a.Args[0].Sort.W == w {
			return a.Args[0]
		}
		if a.Op == "int2bv" {
			return tb.intern(&Term{Op: "int2bv", Sort: BVSort(w), Args: a.Args, P1: w})
		}
		return tb.intern(&Term{Op: "extract", Sort: BVSort(w), Args: []*Term{a}, P1: w - 1, P2: 0})
	}
	if a.Op == "int2bv" {
		// lengths are non-negative and small: widening keeps the integer
		return tb.intern(&Term{Op: "int2bv", Sort: BVSort(w), Args: a.Args, P1: w})
	}
	op := "zext"
	if signed {
		op = "sext"
	}
	return tb.intern(&Term{Op: op, Sort: BVSort(w), Args: []*Term{a}, P1: w - aw})
}

func (tb *TB) Extract(a *Term, hi, lo int) *Term {
	if a.IsConst() {
		return tb.BV(hi-lo+1, a.U>>uint(lo))
	}
	if lo == 0 && hi == a.Sort.W-1 {
		return a
	}
	return tb.intern(&Term{Op: "extract", Sort: BVSort(hi - lo + 1), Args: []*Term{a}, P1: hi, P2: lo})
}

// ---------- strings ----------

func (tb *TB) StrLenInt(s *Term) *Term {
	if s.IsConst() {
		return tb.Int(int64(len(s.S)))
	}
	if s.Op == "str.++" {
		sum := tb.Int(0)
		for _, a := range s.Args {
			sum = tb.IntAdd(sum, tb.StrLenInt(a))
		}
		return sum
	}
	if s.Op == "str.from_code" {
		return tb.Int(1)
	}
	return tb.app("str.len", SortInt, s)
}

// IntToBV converts a non-negative Int term to a BV of width w.
func (tb *TB) IntToBV(i *Term, w int) *Term {
	if i.IsConst() {
		return tb.BV(w, i.U)
	}
	return tb.intern(&Term{Op: "int2bv", Sort: BVSort(w), Args: []*Term{i}, P1: w})
}

// BVToInt converts an unsigned BV term to Int.
func (tb *TB) BVToInt(b *Term) *Term {
	if b.IsConst() {
		return tb.Int(int64(b.U))
	}
	if b.Op == "int2bv" {
		return b.Args[0]
	}
	return tb.app("bv2nat", SortInt, b)
}

func (tb *TB) StrLen(s *Term, w int) *Term { return tb.IntToBV(tb.StrLenInt(s), w) }

func (tb *TB) Concat(as ...*Term) *Term {
	var out []*Term
	for _, a := range as {
		if a.Op == "str.++" {
			for _, x := range a.Args {
				out = appendStr(tb, out, x)
			}
			continue
		}
		out = appendStr(tb, out, a)
	}
	switch len(out) {
	case 0:
		return tb.Str("")
	case 1:
		return out[0]
	}
	return tb.app("str.++", SortStr, out...)
}

func appendStr(tb *TB, out []*Term, a *Term) []*Term {
	if a.IsConst() && a.S == "" {
		return out
	}
	if n := len(out); n > 0 && out[n-1].IsConst() && a.IsConst() {
		out[n-1] = tb.Str(out[n-1].S + a.S)
		return out
	}
	return append(out, a)
}

func (tb *TB) StrOp(op string, ret Sort, args ...*Term) *Term {
	allc := true
	for _, a := range args {
		if !a.IsConst() {
			allc = false
		}
	}
	if allc {
		switch op {
		case "str.prefixof": // (str.prefixof prefix s)
			return tb.Bool(strings.HasPrefix(args[1].S, args[0].S))
		case "str.suffixof":
			return tb.Bool(strings.HasSuffix(args[1].S, args[0].S))
		case "str.contains": // (str.contains s sub)
			return tb.Bool(strings.Contains(args[0].S, args[1].S))
		case "str.<":
			return tb.Bool(args[0].S < args[1].S)
		case "str.<=":
			return tb.Bool(args[0].S <= args[1].S)
		case "str.at":
			i := int64(args[1].U)
			if i < 0 || i >= int64(len(args[0].S)) {
				return tb.Str("")
			}
			return tb.Str(args[0].S[i : i+1])
		case "str.substr":
			s, i, n := args[0].S, int64(args[1].U), int64(args[2].U)
			if i < 0 || i >= int64(len(s)) || n <= 0 {
				return tb.Str("")
			}
			e := i + n
			if e > int64(len(s)) {
				e = int64(len(s))
			}
			return tb.Str(s[i:e])
		case "str.indexof":
			s, sub, i := args[0].S, args[1].S, int64(args[2].U)
			if i < 0 || i > int64(len(s)) {
				return tb.Int(-1)
			}
			r := strings.Index(s[i:], sub)
			if r < 0 {
				return tb.Int(-1)
			}
			return tb.Int(int64(r) + i)
		case "str.to_code":
			if len(args[0].S) != 1 {
				return tb.Int(-1)
			}
			return tb.Int(int64(args[0].S[0]))
		case "str.from_code":
			c := int64(args[0].U)
			if c < 0 || c > 255 {
				return tb.Str("")
			}
			return tb.Str(string([]byte{byte(c)}))
		case "str.replace_all":
			return tb.Str(strings.ReplaceAll(args[0].S, args[1].S, args[2].S))
		case "str.replace":
			return tb.Str(strings.Replace(args[0].S, args[1].S, args[2].S, 1))
		}
	}
	switch op {
	case "str.prefixof":
		if args[0].IsConst() && args[0].S == "" {
			return tb.Bool(true)
		}
		if args[0].IsConst() {
			p, full := constPrefix(args[1])
			if len(p) >= len(args[0].S) {
				return tb.Bool(strings.HasPrefix(p, args[0].S))
			}
			if !strings.HasPrefix(args[0].S, p) || full {
				return tb.Bool(false)
			}
		}
	case "str.contains":
		if args[1].IsConst() && args[1].S == "" {
			return tb.Bool(true)
		}
		if args[0] == args[1] {
			return tb.Bool(true)
		}
		// a concat that has a constant part containing the needle
		if args[1].IsConst() && args[0].Op == "str.++" {
			for _, p := range args[0].Args {
				if p.IsConst() && strings.Contains(p.S, args[1].S) {
					return tb.Bool(true)
				}
			}
		}
	case "str.substr":
		if args[1].IsConst() && args[1].U == 0 && args[2].Op == "str.len" && args[2].Args[0] == args[0] {
			return args[0]
		}
	}
	return tb.app(op, ret, args...)
}

// ---------- printing ----------

func smtStr(s string) string {
	var sb strings.Builder
	sb.WriteByte('"')
	for i := 0; i < len(s); i++ {
		c := s[i]
		switch {
		case c == '"':
			sb.WriteString(`""`)
		case c == '\\' || c < 0x20 || c > 0x7e:
			fmt.Fprintf(&sb, `\u{%x}`, c)
		default:
			sb.WriteByte(c)
		}
	}
	sb.WriteByte('"')
	return sb.String()
}

func bvLit(w int, u uint64) string {
	if w%4 == 0 {
		return fmt.Sprintf("#x%0*x", w/4, u)
	}
	return fmt.Sprintf("#b%0*b", w, u)
}

// Printer turns terms into SMT-LIB text, naming large shared sub-terms with define-fun and
// collecting declarations. One printer per solver scope.
type Printer struct {
	memo  map[*Term]string
	decls map[string]bool
	out   *strings.Builder // pending declarations / definitions to be sent before the assertion
	ndef  int
}

func NewPrinter() *Printer {
	return &Printer{memo: map[*Term]string{}, decls: map[string]bool{}, out: &strings.Builder{}}
}

func symName(n string) string { return "|" + strings.ReplaceAll(n, "|", "_") + "|" }

func (p *Printer) Print(t *Term) string {
	if s, ok := p.memo[t]; ok {
		return s
	}
	var s string
	switch t.Op {
	case "const":
		switch t.Sort.K {
		case KBool:
			if t.U == 1 {
				s = "true"
			} else {
				s = "false"
			}
		case KBV:
			s = bvLit(t.Sort.W, t.U)
		case KStr:
			s = smtStr(t.S)
		case KInt:
			v := int64(t.U)
			if v < 0 {
				s = fmt.Sprintf("(- %d)", -v)
			} else {
				s = strconv.FormatInt(v, 10)
			}
		}
	case "var":
		s = symName(t.S)
		if !p.decls[s] {
			p.decls[s] = true
			fmt.Fprintf(p.out, "(declare-const %s %s)\n", s, t.Sort.SMT())
		}
	default:
		args := make([]string, len(t.Args))
		for i, a := range t.Args {
			args[i] = p.Print(a)
		}
		switch {
		case strings.HasPrefix(t.Op, "uf:"):
			name := symName(t.Op[3:])
			if !p.decls[name] {
				p.decls[name] = true
				var ss []string
				for _, a := range t.Args {
					ss = append(ss, a.Sort.SMT())
				}
				fmt.Fprintf(p.out, "(declare-fun %s (%s) %s)\n", name, strings.Join(ss, " "), t.Sort.SMT())
			}
			if len(args) == 0 {
				s = name
			} else {
				s = "(" + name + " " + strings.Join(args, " ") + ")"
			}
		case t.Op == "extract":
			s = fmt.Sprintf("((_ extract %d %d) %s)", t.P1, t.P2, args[0])
		case t.Op == "zext":
			s = fmt.Sprintf("((_ zero_extend %d) %s)", t.P1, args[0])
		case t.Op == "sext":
			s = fmt.Sprintf("((_ sign_extend %d) %s)", t.P1, args[0])
		case t.Op == "int2bv":
			s = fmt.Sprintf("((_ int2bv %d) %s)", t.Sort.W, args[0])
		case t.Op == "raw":
			s = t.S
		default:
			s = "(" + t.Op + " " + strings.Join(args, " ") + ")"
		}
		if len(s) > 160 {
			p.ndef++
			name := fmt.Sprintf("d!%d", p.ndef)
			fmt.Fprintf(p.out, "(define-fun %s () %s %s)\n", name, t.Sort.SMT(), s)
			s = name
		}
	}
	p.memo[t] = s
	return s
}

// Flush returns pending declarations/definitions and clears the buffer.
func (p *Printer) Flush() string {
	s := p.out.String()
	p.out.Reset()
	return s
}

var _ = bits.Len64
