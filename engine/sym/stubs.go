package sym

import (
	"fmt"
	"go/types"
	"strconv"
	"strings"

	"golang.org/x/tools/go/ssa"
)

// StubFn replaces a callee. handled=false falls through to executing the SSA body.
type StubFn func(in *Interp, fn *ssa.Function, args []Value) (Value, bool)

var intrinsics = map[string]bool{}

func isIntrinsic(name string) bool { return intrinsics[name] }

// no-op packages: every function returns the zero value of its result type.
var noopPkgs = []string{
	"go.uber.org/zap",
	"github.com/trustbloc/logutil-go/",
	"github.com/trustbloc/sidetree-core-go/pkg/internal/log",
	"log",
}

func (in *Interp) zeroResults(fn *ssa.Function) Value {
	res := fn.Signature.Results()
	switch res.Len() {
	case 0:
		return nil
	case 1:
		return in.noopZero(res.At(0).Type())
	}
	t := make(Tuple, res.Len())
	for i := range t {
		t[i] = in.noopZero(res.At(i).Type())
	}
	return t
}

// noopZero: results of no-op (logging) packages; pointers to structs are non-nil empty objects so
// that promoted-field accesses on them do not fault.
func (in *Interp) noopZero(t types.Type) Value {
	if p, ok := under(t).(*types.Pointer); ok {
		if _, ok := under(p.Elem()).(*types.Struct); ok {
			c := new(Value)
			*c = in.zero(p.Elem())
			return c
		}
	}
	return in.zero(t)
}

func (in *Interp) intercept(fn *ssa.Function, args []Value) (Value, bool) {
	name := fn.Name()
	if len(name) > 1 && name[0] == 'V' {
		if h, ok := vIntrinsics[name]; ok {
			return h(in, fn, args), true
		}
	}
	full := fn.String()
	if in.hstubs != nil {
		if cl, ok := in.hstubs[full]; ok {
			return in.Call(cl, args), true
		}
	}
	if s, ok := in.E.Stubs[full]; ok {
		if r, handled := s(in, fn, args); handled {
			return r, true
		}
	}
	if fn.Pkg != nil {
		p := fn.Pkg.Pkg.Path()
		for _, np := range noopPkgs {
			if p == np || strings.HasPrefix(p, np) {
				return in.zeroResults(fn), true
			}
		}
		if fn.Name() == "init" && fn.Synthetic != "" && fn.Signature.Recv() == nil {
			// package initialiser invoked from another initialiser: run lazily instead
			return nil, true
		}
	} else if o := fn.Origin(); o != nil && o.Pkg != nil {
		// instantiated generic: stubs are keyed on the origin
		if s, ok := in.E.Stubs[o.String()]; ok {
			if r, handled := s(in, fn, args); handled {
				return r, true
			}
		}
	}
	return nil, false
}

// ---------- helpers used by stubs ----------

func (in *Interp) errorType() types.Type {
	if in.E.errT != nil {
		return in.E.errT
	}
	pkg := in.E.Prog.ImportedPackage("errors")
	if pkg == nil {
		panic(in.abort("package errors not loaded"))
	}
	t := pkg.Type("errorString")
	in.E.errT = types.NewPointer(t.Type())
	return in.E.errT
}

// NewError builds a fresh, non-nil error value with the given message term.
func (in *Interp) NewError(msg *Term) Iface {
	p := new(Value)
	*p = Struct{msg}
	return Iface{T: in.errorType(), V: p}
}

// errText returns the message of an error value as a string term.
func (in *Interp) errText(e Iface) *Term {
	if e.T == nil {
		return in.tb.Str("<nil>")
	}
	if p, ok := e.V.(*Value); ok && p != nil && types.Identical(e.T, in.errorType()) {
		return (*p).(Struct)[0].(*Term)
	}
	m := in.E.Prog.LookupMethod(e.T, nil, "Error")
	if m == nil {
		return in.tb.Fresh("errtext", SortStr)
	}
	saved := in.curFrame
	r := in.callFn(m, []Value{e.V}, nil)
	in.curFrame = saved
	return r.(*Term)
}

// formatValue renders one Sprintf operand as a string term.
func (in *Interp) formatValue(verb byte, a Value) *Term {
	tb := in.tb
	if i, ok := a.(Iface); ok {
		if i.T == nil {
			return tb.Str("<nil>")
		}
		// error / Stringer
		if verb == 's' || verb == 'v' || verb == 'w' || verb == 'q' {
			if _, isT := i.V.(*Term); !isT && hasMethods(i.T) {
				if m := in.E.Prog.LookupMethod(i.T, nil, "Error"); m != nil && m.Signature.Params().Len() == 0 {
					return in.errText(i)
				}
				if m := in.E.Prog.LookupMethod(i.T, nil, "String"); m != nil && m.Signature.Params().Len() == 0 && m.Blocks != nil {
					saved := in.curFrame
					r := in.callFn(m, []Value{i.V}, nil)
					in.curFrame = saved
					if t, ok := r.(*Term); ok {
						return t
					}
				}
			}
		}
		a = i.V
		if t, ok := a.(*Term); ok {
			switch t.Sort.K {
			case KStr:
				if verb == 'q' {
					return tb.Concat(tb.Str(`"`), t, tb.Str(`"`))
				}
				return t
			case KBool:
				if t.IsConst() {
					return tb.Str(strconv.FormatBool(t.U == 1))
				}
				return tb.Ite(t, tb.Str("true"), tb.Str("false"))
			case KBV:
				if t.IsConst() {
					_, signed, _ := intInfo(i.T)
					if verb == 'x' {
						return tb.Str(strconv.FormatUint(t.U, 16))
					}
					if signed {
						return tb.Str(strconv.FormatInt(sext(t.U, t.Sort.W), 10))
					}
					return tb.Str(strconv.FormatUint(t.U, 10))
				}
				if t.Op == "int2bv" {
					// a non-negative mathematical integer: canonical decimal rendering
					return tb.StrOp("str.from_int", SortStr, t.Args[0])
				}
				return tb.UF("fmt.int", SortStr, tb.Resize(t, 64, false))
			}
		}
	}
	return in.tb.Fresh("fmt", SortStr)
}

// hexDigit renders a 4-bit term as its lower-case hex digit (if-then-else chain over 16 constants).
func (in *Interp) hexDigit(n *Term) *Term {
	tb := in.tb
	r := tb.Str("f")
	for d := 14; d >= 0; d-- {
		r = tb.Ite(tb.Eq(n, tb.BV(n.Sort.W, uint64(d))), tb.Str(strconv.FormatUint(uint64(d), 16)), r)
	}
	return r
}

// sprintf builds the message from the literal fragments of a constant format string.
func (in *Interp) sprintf(format *Term, args []Value) *Term {
	if !format.IsConst() {
		return in.tb.Fresh("fmt", SortStr)
	}
	f := format.S
	var parts []*Term
	ai := 0
	lit := []byte{}
	for i := 0; i < len(f); i++ {
		c := f[i]
		if c != '%' {
			lit = append(lit, c)
			continue
		}
		i++
		if i >= len(f) {
			break
		}
		// flags / width
		fstart := i
		for i < len(f) && strings.IndexByte("+-# 0123456789.", f[i]) >= 0 {
			i++
		}
		flags := f[fstart:i]
		if i >= len(f) {
			break
		}
		verb := f[i]
		if verb == '%' {
			lit = append(lit, '%')
			continue
		}
		if len(lit) > 0 {
			parts = append(parts, in.tb.Str(string(lit)))
			lit = lit[:0]
		}
		if ai < len(args) {
			done := false
			if verb == 'x' && flags == "04" {
				if iv, ok := args[ai].(Iface); ok {
					if t, ok := iv.V.(*Term); ok && t.Sort.K == KBV && t.Sort.W == 8 {
						if t.IsConst() {
							parts = append(parts, in.tb.Str(fmt.Sprintf("%04x", t.U)))
						} else {
							parts = append(parts, in.tb.Str("00"), in.hexDigit(in.tb.Extract(t, 7, 4)), in.hexDigit(in.tb.Extract(t, 3, 0)))
						}
						done = true
					}
				}
			}
			if !done {
				parts = append(parts, in.formatValue(verb, args[ai]))
			}
			ai++
		} else {
			parts = append(parts, in.tb.Str("%!"+string(verb)+"(MISSING)"))
		}
	}
	if len(lit) > 0 {
		parts = append(parts, in.tb.Str(string(lit)))
	}
	return in.tb.Concat(parts...)
}

func hasMethods(t types.Type) bool {
	if p, ok := t.(*types.Pointer); ok {
		t = p.Elem()
	}
	_, ok := t.(*types.Named)
	return ok
}

func variadic(v Value) []Value {
	s, _ := v.([]Value)
	return s
}

// constStr requires a constant string argument.
func (in *Interp) constStr(v Value, what string) string {
	t, ok := v.(*Term)
	if !ok || !t.IsConst() || t.Sort.K != KStr {
		panic(in.abort("%s must be a constant string", what))
	}
	return t.S
}

// toTerm flattens a harness-level scalar (possibly boxed in an interface) to a term.
func (in *Interp) toTerm(v Value) *Term {
	switch x := in.force(v).(type) {
	case *Term:
		return x
	case Iface:
		if x.T == nil {
			return in.tb.Str("<nil>")
		}
		return in.toTerm(x.V)
	case SymBytes:
		return x.S
	case []Value:
		return in.bytesToStr(x)
	case Float:
		return x.B
	}
	panic(in.abort("cannot use %T as a term", v))
}

// ---------- harness intrinsics ----------

type intrinsicFn func(in *Interp, fn *ssa.Function, args []Value) Value

var vIntrinsics map[string]intrinsicFn

func init() {
	nondetInt := func(w int) intrinsicFn {
		return func(in *Interp, fn *ssa.Function, args []Value) Value {
			return in.Nondet(in.constStr(args[0], "nondet name"), BVSort(w), "bv")
		}
	}
	vIntrinsics = map[string]intrinsicFn{
		"VNondetU64":  nondetInt(64),
		"VNondetI64":  nondetInt(64),
		"VNondetInt":  nondetInt(64),
		"VNondetUint": nondetInt(64),
		"VNondetU32":  nondetInt(32),
		"VNondetI32":  nondetInt(32),
		"VNondetU8":   nondetInt(8),
		"VNondetBool": func(in *Interp, fn *ssa.Function, args []Value) Value {
			return in.Nondet(in.constStr(args[0], "nondet name"), SortBool, "bool")
		},
		"VNondetString": func(in *Interp, fn *ssa.Function, args []Value) Value {
			return in.Nondet(in.constStr(args[0], "nondet name"), SortStr, "string")
		},
		"VNondetBytes": func(in *Interp, fn *ssa.Function, args []Value) Value {
			return SymBytes{in.Nondet(in.constStr(args[0], "nondet name"), SortStr, "bytes")}
		},
		"VNondetRange": func(in *Interp, fn *ssa.Function, args []Value) Value {
			name := in.uniqueName(in.constStr(args[0], "nondet name"))
			lo := in.concreteInt(args[1].(*Term), "range lo")
			hi := in.concreteInt(args[2].(*Term), "range hi")
			if hi < lo {
				panic(&pathEnd{"empty range"})
			}
			k := lo + in.Choose(hi-lo+1)
			t := in.tb.BV(64, uint64(k))
			in.nondets = append(in.nondets, nondetRec{name, t, "range"})
			return t
		},
		"VAssume": func(in *Interp, fn *ssa.Function, args []Value) Value {
			in.Assume(args[0].(*Term))
			return nil
		},
		"VAssert": func(in *Interp, fn *ssa.Function, args []Value) Value {
			in.Obligation(in.constStr(args[0], "assert label"), args[1].(*Term), "assert")
			return nil
		},
		// VSkip(reason): the harness is a lemma about HOW the code does something (e.g. "through sort.SliceStable");
		// on a tree that does it differently the lemma is moot. The path ends, the harness is reported as
		// skipped with the reason, and its cover goals are not demanded.
		"VSkip": func(in *Interp, fn *ssa.Function, args []Value) Value {
			reason := in.constStr(args[0], "skip reason")
			e := in.E
			e.mu.Lock()
			e.res(in.harness).Skipped = reason
			e.mu.Unlock()
			panic(&pathEnd{"skipped: " + reason})
		},
		"VCover": func(in *Interp, fn *ssa.Function, args []Value) Value {
			in.cover(in.constStr(args[0], "cover label"))
			return nil
		},
		"VAnd": func(in *Interp, fn *ssa.Function, args []Value) Value {
			var ts []*Term
			for _, a := range variadic(args[0]) {
				ts = append(ts, a.(*Term))
			}
			return in.tb.And(ts...)
		},
		"VOr": func(in *Interp, fn *ssa.Function, args []Value) Value {
			var ts []*Term
			for _, a := range variadic(args[0]) {
				ts = append(ts, a.(*Term))
			}
			return in.tb.Or(ts...)
		},
		"VImplies": func(in *Interp, fn *ssa.Function, args []Value) Value {
			return in.tb.Implies(args[0].(*Term), args[1].(*Term))
		},
		"VIteU64": func(in *Interp, fn *ssa.Function, args []Value) Value {
			return in.tb.Ite(args[0].(*Term), args[1].(*Term), args[2].(*Term))
		},
		"VIteI64": func(in *Interp, fn *ssa.Function, args []Value) Value {
			return in.tb.Ite(args[0].(*Term), args[1].(*Term), args[2].(*Term))
		},
		"VIteStr": func(in *Interp, fn *ssa.Function, args []Value) Value {
			return in.tb.Ite(args[0].(*Term), args[1].(*Term), args[2].(*Term))
		},
		"VIteBool": func(in *Interp, fn *ssa.Function, args []Value) Value {
			return in.tb.Ite(args[0].(*Term), args[1].(*Term), args[2].(*Term))
		},
		"VUFString": func(in *Interp, fn *ssa.Function, args []Value) Value { return in.ufCall(args, SortStr) },
		"VUFBool":   func(in *Interp, fn *ssa.Function, args []Value) Value { return in.ufCall(args, SortBool) },
		"VUFU64":    func(in *Interp, fn *ssa.Function, args []Value) Value { return in.ufCall(args, BVSort(64)) },
		"VHavoc": func(in *Interp, fn *ssa.Function, args []Value) Value {
			i := args[1].(Iface)
			p, ok := i.V.(*Value)
			if !ok || p == nil {
				panic(in.abort("VHavoc needs a non-nil pointer"))
			}
			*p = in.havoc(in.constStr(args[0], "havoc name"), i.T.(*types.Pointer).Elem(), 0)
			return nil
		},
		"VHavocBounds": func(in *Interp, fn *ssa.Function, args []Value) Value {
			in.hb = havocBounds{MaxSlice: in.concreteInt(args[0].(*Term), "bound"), MaxDepth: in.concreteInt(args[1].(*Term), "bound"),
				MaxMap: in.concreteInt(args[2].(*Term), "bound")}
			return nil
		},
		"VSample": func(in *Interp, fn *ssa.Function, args []Value) Value {
			s := in.constStr(args[0], "sample label")
			for _, a := range variadic(args[1]) {
				s += " " + describeShort(a)
			}
			in.samples = append(in.samples, s)
			return nil
		},
		"VLog": func(in *Interp, fn *ssa.Function, args []Value) Value {
			s := in.constStr(args[0], "log label")
			for _, a := range variadic(args[1]) {
				s += " " + describeShort(a)
			}
			in.logs = append(in.logs, s)
			return nil
		},
		"VKnownFinding": func(in *Interp, fn *ssa.Function, args []Value) Value {
			id := in.constStr(args[0], "finding id")
			region := args[1].(*Term)
			if !in.E.Open[id] {
				return nil
			}
			if in.checkWith(region) != "unsat" {
				in.E.mu.Lock()
				in.E.res(in.harness).Known[id]++
				in.E.mu.Unlock()
			}
			in.Assume(in.tb.Not(region))
			return nil
		},
		"VStub": func(in *Interp, fn *ssa.Function, args []Value) Value {
			if in.hstubs == nil {
				in.hstubs = map[string]Value{}
			}
			in.hstubs[in.constStr(args[0], "stub target")] = args[1].(Iface).V
			return nil
		},
		"VUnstub": func(in *Interp, fn *ssa.Function, args []Value) Value {
			delete(in.hstubs, in.constStr(args[0], "stub target"))
			return nil
		},
		"VErr": func(in *Interp, fn *ssa.Function, args []Value) Value {
			return in.NewError(args[0].(*Term))
		},
		"VBound": func(in *Interp, fn *ssa.Function, args []Value) Value {
			name := in.constStr(args[0], "bound name")
			if b, ok := in.E.Bounds[in.harness]; ok {
				if v, ok := b[name]; ok {
					return in.tb.BV(64, uint64(v))
				}
			}
			return args[1]
		},
		"VSymbolic": func(in *Interp, fn *ssa.Function, args []Value) Value { return in.tb.Bool(true) },
		"VConcreteInt": func(in *Interp, fn *ssa.Function, args []Value) Value {
			return in.tb.BV(64, uint64(in.concreteInt(args[0].(*Term), "VConcreteInt")))
		},
		"VStrLenLE": func(in *Interp, fn *ssa.Function, args []Value) Value {
			return in.tb.IntCmp("<=", in.tb.StrLenInt(args[0].(*Term)), in.tb.BVToInt(args[1].(*Term)))
		},
	}
	for k := range vIntrinsics {
		intrinsics[k] = true
	}
}

func describeShort(v Value) string {
	s := describe(v)
	if len(s) > 200 {
		s = s[:200] + "…"
	}
	return s
}

func (in *Interp) ufCall(args []Value, ret Sort) Value {
	name := in.constStr(args[0], "UF name")
	var ts []*Term
	for _, a := range variadic(args[1]) {
		ts = append(ts, in.toTerm(a))
	}
	return in.noteUF(in.tb.UF(name, ret, ts...))
}

func (in *Interp) cover(label string) {
	e := in.E
	e.mu.Lock()
	r := e.res(in.harness)
	r.Covers[label]++
	first := r.Covers[label] == 1
	e.mu.Unlock()
	if first && in.E.WantCoverWitness {
		if in.sol.CheckSat() == "sat" {
			w := in.extractWitness(label, "cover", in.where())
			e.mu.Lock()
			r.CoverWit[label] = w
			e.mu.Unlock()
		}
		in.E.countQuery()
	}
}

// ---------- registered stubs ----------

var extraStubs []func(e *Engine)

func registerStubs(e *Engine) {
	defer func() {
		for _, f := range extraStubs {
			f(e)
		}
	}()
	S := e.Stubs
	ret := func(v Value) (Value, bool) { return v, true }

	// --- errors / fmt ---
	S["errors.New"] = func(in *Interp, fn *ssa.Function, args []Value) (Value, bool) {
		return ret(in.NewError(args[0].(*Term)))
	}
	S["fmt.Errorf"] = func(in *Interp, fn *ssa.Function, args []Value) (Value, bool) {
		return ret(in.NewError(in.sprintf(args[0].(*Term), variadic(args[1]))))
	}
	S["fmt.Sprintf"] = func(in *Interp, fn *ssa.Function, args []Value) (Value, bool) {
		return ret(in.sprintf(args[0].(*Term), variadic(args[1])))
	}
	S["fmt.Sprint"] = func(in *Interp, fn *ssa.Function, args []Value) (Value, bool) {
		var parts []*Term
		for _, a := range variadic(args[0]) {
			parts = append(parts, in.formatValue('v', a))
		}
		return ret(in.tb.Concat(parts...))
	}
	for _, n := range []string{"fmt.Println", "fmt.Printf", "fmt.Print"} {
		S[n] = func(in *Interp, fn *ssa.Function, args []Value) (Value, bool) {
			return ret(Tuple{in.tb.BV(64, 0), Iface{}})
		}
	}
	pe := "github.com/pkg/errors."
	S[pe+"New"] = S["errors.New"]
	S[pe+"Errorf"] = S["fmt.Errorf"]
	wrapf := func(in *Interp, fn *ssa.Function, args []Value) (Value, bool) {
		e := args[0].(Iface)
		if e.T == nil {
			return ret(Iface{})
		}
		return ret(in.NewError(in.tb.Concat(in.sprintf(args[1].(*Term), variadic(args[2])), in.tb.Str(": "), in.errText(e))))
	}
	S[pe+"Wrapf"] = wrapf
	S[pe+"WithMessagef"] = wrapf
	wrap := func(in *Interp, fn *ssa.Function, args []Value) (Value, bool) {
		e := args[0].(Iface)
		if e.T == nil {
			return ret(Iface{})
		}
		return ret(in.NewError(in.tb.Concat(args[1].(*Term), in.tb.Str(": "), in.errText(e))))
	}
	S[pe+"Wrap"] = wrap
	S[pe+"WithMessage"] = wrap

	// --- sync / atomic ---
	for _, n := range []string{"(*sync.Mutex).Lock", "(*sync.Mutex).Unlock", "(*sync.RWMutex).Lock", "(*sync.RWMutex).Unlock",
		"(*sync.RWMutex).RLock", "(*sync.RWMutex).RUnlock", "(*sync.WaitGroup).Add", "(*sync.WaitGroup).Done", "(*sync.WaitGroup).Wait"} {
		S[n] = func(in *Interp, fn *ssa.Function, args []Value) (Value, bool) { return ret(nil) }
	}
	S["(*sync.Once).Do"] = func(in *Interp, fn *ssa.Function, args []Value) (Value, bool) {
		p := args[0].(*Value)
		st := (*p).(Struct)
		// done flag is the first field (atomic.Uint32 {_ noCopy; v uint32}) — model with memo keyed by cell
		key := fmt.Sprintf("once:%p", p)
		if _, ok := in.memo[key]; ok {
			return ret(nil)
		}
		_ = st
		in.memo[key] = true
		in.Call(args[1], nil)
		return ret(nil)
	}
	S["sync/atomic.LoadUint32"] = func(in *Interp, fn *ssa.Function, args []Value) (Value, bool) {
		return ret(copyVal(*(args[0].(*Value))))
	}
	S["sync/atomic.StoreUint32"] = func(in *Interp, fn *ssa.Function, args []Value) (Value, bool) {
		*(args[0].(*Value)) = args[1]
		return ret(nil)
	}
	S["sync/atomic.CompareAndSwapUint32"] = func(in *Interp, fn *ssa.Function, args []Value) (Value, bool) {
		p := args[0].(*Value)
		eq := in.tb.Eq((*p).(*Term), args[1].(*Term))
		if in.Branch(eq) {
			*p = args[2]
			return ret(in.tb.Bool(true))
		}
		return ret(in.tb.Bool(false))
	}
	S["sync/atomic.AddUint32"] = func(in *Interp, fn *ssa.Function, args []Value) (Value, bool) {
		p := args[0].(*Value)
		*p = in.tb.BinBV("bvadd", (*p).(*Term), args[1].(*Term))
		return ret(*p)
	}
	S["sync/atomic.AddUint64"] = S["sync/atomic.AddUint32"]
	S["sync/atomic.AddInt64"] = S["sync/atomic.AddUint32"]
	S["sync/atomic.LoadUint64"] = S["sync/atomic.LoadUint32"]
	S["sync/atomic.LoadInt64"] = S["sync/atomic.LoadUint32"]

	// --- sort (real pdqsort/stable SSA; only reflection is intercepted) ---
	S["internal/reflectlite.ValueOf"] = func(in *Interp, fn *ssa.Function, args []Value) (Value, bool) {
		return ret(&Opaque{Kind: "reflect.Value", Data: args[0].(Iface).V})
	}
	S["(internal/reflectlite.Value).Len"] = func(in *Interp, fn *ssa.Function, args []Value) (Value, bool) {
		return ret(in.lenOf(args[0].(*Opaque).Data))
	}
	S["internal/reflectlite.Swapper"] = func(in *Interp, fn *ssa.Function, args []Value) (Value, bool) {
		s, ok := args[0].(Iface).V.([]Value)
		if !ok {
			panic(in.abort("Swapper on %T", args[0].(Iface).V))
		}
		return ret(&Closure{Native: func(in *Interp, a []Value) Value {
			i := in.concreteInt(a[0].(*Term), "swap index")
			j := in.concreteInt(a[1].(*Term), "swap index")
			s[i], s[j] = s[j], s[i]
			return nil
		}})
	}

	// --- strings on SMT strings ---
	str2 := func(f func(in *Interp, a, b *Term) Value) StubFn {
		return func(in *Interp, fn *ssa.Function, args []Value) (Value, bool) {
			return ret(f(in, args[0].(*Term), args[1].(*Term)))
		}
	}
	S["strings.Contains"] = str2(func(in *Interp, a, b *Term) Value { return in.tb.StrOp("str.contains", SortBool, a, b) })
	S["strings.HasPrefix"] = str2(func(in *Interp, a, b *Term) Value { return in.tb.StrOp("str.prefixof", SortBool, b, a) })
	S["strings.HasSuffix"] = str2(func(in *Interp, a, b *Term) Value { return in.tb.StrOp("str.suffixof", SortBool, b, a) })
	S["strings.Index"] = str2(func(in *Interp, a, b *Term) Value {
		return in.idxToBV(in.tb.StrOp("str.indexof", SortInt, a, b, in.tb.Int(0)))
	})
	S["strings.Count"] = func(in *Interp, fn *ssa.Function, args []Value) (Value, bool) {
		a, b := args[0].(*Term), args[1].(*Term)
		if a.IsConst() && b.IsConst() {
			return ret(in.tb.BV(64, uint64(strings.Count(a.S, b.S))))
		}
		if !b.IsConst() || b.S == "" {
			panic(in.abort("strings.Count with symbolic/empty separator"))
		}
		// the number of non-overlapping occurrences is one less than the number of pieces Split yields
		return ret(in.tb.BV(64, uint64(len(in.strSplit(a, b, -1).([]Value))-1)))
	}
	S["strings.IndexByte"] = func(in *Interp, fn *ssa.Function, args []Value) (Value, bool) {
		return ret(in.idxToBV(in.tb.StrOp("str.indexof", SortInt, args[0].(*Term), in.byteToStr(args[1].(*Term)), in.tb.Int(0))))
	}
	S["strings.EqualFold"] = func(in *Interp, fn *ssa.Function, args []Value) (Value, bool) {
		a, b := args[0].(*Term), args[1].(*Term)
		if a.IsConst() && b.IsConst() {
			return ret(in.tb.Bool(strings.EqualFold(a.S, b.S)))
		}
		// short strings: the real function on the byte-vector view; longer ones: uninterpreted
		ea, oka := in.explodeStr(a, in.E.Cfg.MaxStrExplode)
		eb, okb := in.explodeStr(b, in.E.Cfg.MaxStrExplode)
		if oka && okb && in.allASCII(ea) && in.allASCII(eb) {
			return in.runReal(fn, []Value{ea, eb}), true
		}
		return ret(in.noteUF(in.tb.UF("strings.EqualFold", SortBool, a, b)))
	}
	S["strings.ReplaceAll"] = func(in *Interp, fn *ssa.Function, args []Value) (Value, bool) {
		return ret(in.tb.StrOp("str.replace_all", SortStr, args[0].(*Term), args[1].(*Term), args[2].(*Term)))
	}
	trimSpace := func(in *Interp, fn *ssa.Function, a *Term) *Term {
		if a.IsConst() {
			return in.tb.Str(strings.TrimSpace(a.S))
		}
		if ea, ok := in.explodeStr(a, in.E.Cfg.MaxStrExplode); ok && in.allASCII(ea) {
			sfn := fn
			if fn.Pkg.Pkg.Path() != "strings" {
				sp := in.E.Prog.ImportedPackage("strings")
				if sp == nil {
					panic(in.abort("package strings not loaded"))
				}
				sfn = sp.Func("TrimSpace")
			}
			return in.runReal(sfn, []Value{ea}).(*Term)
		}
		// longer / non-ASCII text: uninterpreted, with the facts every TrimSpace result satisfies: it is a
		// substring of the input, not longer, and neither starts nor ends with an ASCII space character
		tb := in.tb
		r := in.noteUF(tb.UF("strings.TrimSpace", SortStr, a))
		inReOf := func(x *Term, pat string) *Term {
			rl, err := reToSMT(pat)
			if err != nil {
				panic(in.abort("regexp %q: %v", pat, err))
			}
			return tb.app("str.in_re", SortBool, x, tb.intern(&Term{Op: "raw", Sort: Sort{K: KInt, W: -7}, S: rl}))
		}
		inRe := func(pat string) *Term { return inReOf(r, pat) }
		in.assertPC(tb.And(tb.StrOp("str.contains", SortBool, a, r),
			tb.IntCmp("<=", tb.StrLenInt(r), tb.StrLenInt(a)),
			tb.Not(inRe(`^[\t\n\v\f\r ]`)), tb.Not(inRe(`[\t\n\v\f\r ]$`)),
			// text that begins and ends with an ASCII non-space byte is returned unchanged
			tb.Implies(inReOf(a, `^[\x21-\x7f](.*[\x21-\x7f])?$`), tb.Eq(r, a))))
		return r
	}
	S["strings.TrimSpace"] = func(in *Interp, fn *ssa.Function, args []Value) (Value, bool) {
		return ret(trimSpace(in, fn, args[0].(*Term)))
	}
	S["bytes.TrimSpace"] = func(in *Interp, fn *ssa.Function, args []Value) (Value, bool) {
		if args[0] == nil {
			return nil, false
		}
		if sl, ok := args[0].([]Value); ok && sl == nil {
			return nil, false
		}
		r := trimSpace(in, fn, in.bytesToStr(args[0]))
		if r.IsConst() && r.S == "" {
			return ret([]Value(nil)) // bytes.TrimSpace returns nil when everything is trimmed
		}
		return ret(in.strToBytes(r))
	}
	for _, nm := range []string{"ToLower", "ToUpper"} {
		nm := nm
		host := map[string]func(string) string{"ToLower": strings.ToLower, "ToUpper": strings.ToUpper}[nm]
		S["strings."+nm] = func(in *Interp, fn *ssa.Function, args []Value) (Value, bool) {
			a := args[0].(*Term)
			if a.IsConst() {
				return ret(in.tb.Str(host(a.S)))
			}
			// short strings: the real function on the byte-vector view; longer ones: uninterpreted
			if ea, ok := in.explodeStr(a, in.E.Cfg.MaxStrExplode); ok && in.allASCII(ea) {
				return in.runReal(fn, []Value{ea}), true
			}
			return ret(in.noteUF(in.tb.UF("strings."+nm, SortStr, a)))
		}
	}
	S["strings.Join"] = func(in *Interp, fn *ssa.Function, args []Value) (Value, bool) {
		var parts []*Term
		for i, e := range args[0].([]Value) {
			if i > 0 {
				parts = append(parts, args[1].(*Term))
			}
			parts = append(parts, e.(*Term))
		}
		return ret(in.tb.Concat(parts...))
	}
	S["strings.Split"] = func(in *Interp, fn *ssa.Function, args []Value) (Value, bool) {
		return ret(in.strSplit(args[0].(*Term), args[1].(*Term), -1))
	}
	S["strings.SplitN"] = func(in *Interp, fn *ssa.Function, args []Value) (Value, bool) {
		return ret(in.strSplit(args[0].(*Term), args[1].(*Term), in.concreteInt(args[2].(*Term), "SplitN n")))
	}
	S["strings.LastIndex"] = func(in *Interp, fn *ssa.Function, args []Value) (Value, bool) {
		a, b := args[0].(*Term), args[1].(*Term)
		if a.IsConst() && b.IsConst() {
			return ret(in.tb.BV(64, uint64(int64(strings.LastIndex(a.S, b.S)))))
		}
		return ret(in.strLastIndex(a, b))
	}
	S["bytes.Equal"] = func(in *Interp, fn *ssa.Function, args []Value) (Value, bool) {
		return ret(in.tb.Eq(in.bytesToStr(args[0]), in.bytesToStr(args[1])))
	}
	// decimal rendering is the same model as fmt's %d, so that code may switch between the two
	S["strconv.Itoa"] = func(in *Interp, fn *ssa.Function, args []Value) (Value, bool) {
		return ret(in.fmtDecimal(args[0].(*Term), true))
	}
	S["strconv.FormatInt"] = func(in *Interp, fn *ssa.Function, args []Value) (Value, bool) {
		a, b := args[0].(*Term), args[1].(*Term)
		if a.IsConst() && b.IsConst() {
			return ret(in.tb.Str(strconv.FormatInt(int64(a.U), int(b.U))))
		}
		if b.IsConst() && b.U == 10 {
			return ret(in.fmtDecimal(a, true))
		}
		return ret(in.tb.UF("fmt.intbase", SortStr, a, b))
	}
	S["strconv.FormatUint"] = func(in *Interp, fn *ssa.Function, args []Value) (Value, bool) {
		a, b := args[0].(*Term), args[1].(*Term)
		if a.IsConst() && b.IsConst() {
			return ret(in.tb.Str(strconv.FormatUint(a.U, int(b.U))))
		}
		if b.IsConst() && b.U == 10 {
			return ret(in.fmtDecimal(a, false))
		}
		return ret(in.tb.UF("fmt.intbase", SortStr, a, b))
	}
}

// fmtDecimal: decimal text of an integer term, shared by fmt's %d and strconv.
func (in *Interp) fmtDecimal(t *Term, signed bool) *Term {
	tb := in.tb
	if t.IsConst() {
		if signed {
			return tb.Str(strconv.FormatInt(sext(t.U, t.Sort.W), 10))
		}
		return tb.Str(strconv.FormatUint(t.U, 10))
	}
	if t.Op == "int2bv" {
		// a non-negative mathematical integer: canonical decimal rendering
		return tb.StrOp("str.from_int", SortStr, t.Args[0])
	}
	return tb.UF("fmt.int", SortStr, tb.Resize(t, 64, false))
}

func (in *Interp) idxToBV(i *Term) *Term {
	if i.IsConst() {
		return in.tb.BV(64, i.U)
	}
	// -1 or a non-negative index
	return in.tb.Ite(in.tb.IntCmp("<", i, in.tb.Int(0)), in.tb.BV(64, ^uint64(0)), in.tb.IntToBV(i, 64))
}

// strSplit models strings.Split for a constant separator by bounded unfolding: the number of
// separators in s is case split (0..MaxEnum).
func (in *Interp) strSplit(s, sep *Term, n int) Value {
	tb := in.tb
	if s.IsConst() && sep.IsConst() {
		var out []Value
		for _, p := range strings.SplitN(s.S, sep.S, n) {
			out = append(out, tb.Str(p))
		}
		return out
	}
	if !sep.IsConst() || sep.S == "" {
		panic(in.abort("strings.Split with symbolic/empty separator"))
	}
	// syntactic split: a concatenation whose non-constant parts are known (from the path condition) not to
	// contain the separator splits exactly at the separators inside its constant parts
	if len(sep.S) == 1 && n < 0 {
		parts := []*Term{s}
		if s.Op == "str.++" {
			parts = s.Args
		}
		ok := true
		for _, p := range parts {
			if p.IsConst() {
				continue
			}
			if v, known := in.known[tb.StrOp("str.contains", SortBool, p, sep)]; !known || v {
				ok = false
				break
			}
		}
		if ok {
			var out []Value
			cur := []*Term{}
			for _, p := range parts {
				if !p.IsConst() {
					cur = append(cur, p)
					continue
				}
				segs := strings.Split(p.S, sep.S)
				for i, seg := range segs {
					if i > 0 {
						out = append(out, tb.Concat(cur...))
						cur = cur[:0:0]
					}
					if seg != "" {
						cur = append(cur, tb.Str(seg))
					}
				}
			}
			out = append(out, tb.Concat(cur...))
			return out
		}
	}
	var out []Value
	rest := s
	for k := 0; ; k++ {
		if n > 0 && len(out) == n-1 {
			break
		}
		if k > in.E.Cfg.MaxEnum {
			panic(in.abort("strings.Split: more than %d separators", in.E.Cfg.MaxEnum))
		}
		has := tb.StrOp("str.contains", SortBool, rest, sep)
		if !in.Branch(has) {
			break
		}
		// rest = head ++ sep ++ tail with head free of sep
		idx := tb.StrOp("str.indexof", SortInt, rest, sep, tb.Int(0))
		head := tb.StrOp("str.substr", SortStr, rest, tb.Int(0), idx)
		after := tb.IntAdd(idx, tb.Int(int64(len(sep.S))))
		tail := tb.StrOp("str.substr", SortStr, rest, after, tb.IntSub(tb.StrLenInt(rest), after))
		out = append(out, head)
		rest = tail
	}
	out = append(out, rest)
	return out
}

func (in *Interp) strLastIndex(a, b *Term) *Term {
	tb := in.tb
	// r = last index: defined through a fresh variable with its characterising constraints
	r := tb.Fresh("lastidx", SortInt)
	has := tb.StrOp("str.contains", SortBool, a, b)
	lb := tb.StrLenInt(b)
	tailFrom := tb.IntAdd(r, tb.Int(1))
	tail := tb.StrOp("str.substr", SortStr, a, tailFrom, tb.IntSub(tb.StrLenInt(a), tailFrom))
	def := tb.Ite(has,
		tb.And(tb.IntCmp(">=", r, tb.Int(0)),
			tb.Eq(tb.StrOp("str.substr", SortStr, a, r, lb), b),
			tb.Not(tb.StrOp("str.contains", SortBool, tail, b))),
		tb.Eq(r, tb.Int(-1)))
	in.assertPC(def)
	return in.idxToBV(r)
}
