package sym

import (
	"fmt"
	"go/token"
	"go/types"
	"os"
	"strings"
	"time"

	"golang.org/x/tools/go/ssa"
)

// control-flow sentinels (host panics)
type pathAbort struct{ Reason string } // exploration cannot continue: INCONCLUSIVE
type pathEnd struct{ Reason string }   // path finished early (infeasible assumption, explicit stop)
type goPanic struct {                  // the interpreted program panicked
	Msg string
	Pos string
}

type deferred struct {
	fn   Value
	args []Value
	inst *ssa.Defer
}

type frame struct {
	fn     *ssa.Function
	env    map[ssa.Value]Value
	block  *ssa.BasicBlock
	prev   *ssa.BasicBlock
	defers []deferred
	result Value
	visits map[int]int
	caller *frame
	pos    token.Pos
}

type nondetRec struct {
	Name string
	T    *Term
	Kind string
}

// Interp executes one path at a time. One Interp per worker.
type Interp struct {
	E   *Engine
	tb  *TB
	sol *Solver
	pr  *Printer

	prefix []int
	pos    int
	trace  []int
	pc     []*Term

	globals    map[*ssa.Global]*Value
	inited     map[*ssa.Package]bool
	nondets    []nondetRec
	names      map[string]int
	ufApps     []*Term
	ufSeen     map[*Term]bool
	steps      int
	depth      int
	unknowns   int
	branches   int
	curFrame   *frame
	harness    string
	samples    []string
	logs       []string
	codecs     map[string]interface{} // codec-pair registry: blob var name -> *codecEntry
	memo       map[string]Value       // generic per-path memo for stubs
	funcsHit   map[*ssa.Function]bool
	hb         havocBounds
	inInit     int
	curHarness *ssa.Function
	known      map[*Term]bool
	strMats    map[*Term]*strMat // materialised byte prefixes of symbolic strings
	decodes    map[string][]*decodeRec
	encoded    map[string][][2]*Term
	hstubs     map[string]Value
}

func (in *Interp) resetPath(prefix []int) {
	in.tb = NewTB()
	in.pr = NewPrinter()
	in.prefix = prefix
	in.pos = 0
	in.trace = in.trace[:0]
	in.pc = in.pc[:0]
	in.globals = map[*ssa.Global]*Value{}
	in.inited = map[*ssa.Package]bool{}
	in.nondets = nil
	in.names = map[string]int{}
	in.ufApps = nil
	in.ufSeen = map[*Term]bool{}
	in.steps = 0
	in.depth = 0
	in.unknowns = 0
	in.branches = 0
	in.curFrame = nil
	in.samples = nil
	in.logs = nil
	in.codecs = map[string]interface{}{}
	in.memo = map[string]Value{}
	in.hb = defaultHavocBounds
	in.inInit = 0
	in.hstubs = nil
	in.known = map[*Term]bool{}
	in.strMats = map[*Term]*strMat{}
	in.decodes = map[string][]*decodeRec{}
	in.encoded = map[string][][2]*Term{}
	in.decodes = map[string][]*decodeRec{}
	in.sol.Send("(reset)\n(set-option :produce-models true)\n")
	if in.sol.Name == "cvc5" {
		in.sol.Send("(set-logic ALL)\n")
	}
	in.sol.Errors = nil
}

// ---------- solver interaction ----------

// learn records literals implied by an asserted condition so that repeated branches on the same
// condition are decided without a solver call.
func (in *Interp) learn(c *Term, val bool) {
	switch {
	case c.Op == "not":
		in.learn(c.Args[0], !val)
	case c.Op == "and" && val:
		for _, a := range c.Args {
			in.learn(a, true)
		}
	case c.Op == "or" && !val:
		for _, a := range c.Args {
			in.learn(a, false)
		}
	default:
		in.known[c] = val
	}
}

func (in *Interp) assertPC(c *Term) {
	if c.IsTrue() {
		return
	}
	in.learn(c, true)
	in.pc = append(in.pc, c)
	txt := in.pr.Print(c)
	in.sol.Send(in.pr.Flush())
	in.sol.Send("(assert " + txt + ")\n")
}

// checkWith asks whether pc ∧ c is satisfiable.
func (in *Interp) checkWith(c *Term) string {
	if c.IsTrue() {
		return "sat" // pc is satisfiable by invariant
	}
	if c.IsFalse() {
		return "unsat"
	}
	if r, ok := in.lookupKnown(c); ok {
		if r {
			return "sat"
		}
		return "unsat"
	}
	if in.E.stop {
		panic(in.abort("exploration stopped (time budget or path cap)"))
	}
	txt := in.pr.Print(c)
	in.sol.Send(in.pr.Flush())
	in.sol.Send("(push 1)\n(assert " + txt + ")\n")
	t0 := time.Now()
	r := in.sol.CheckSat()
	if d := time.Since(t0); d > 2*time.Second && os.Getenv("SYMGO_PROGRESS") != "" {
		fmt.Fprintf(os.Stderr, "SLOW %.1fs %s at %s\n  query: %s\n  pc: %d conjuncts\n", d.Seconds(), r, in.where(), trunc(txt, 400), len(in.pc))
		if os.Getenv("SYMGO_SLOWDUMP") != "" {
			var sb strings.Builder
			pr := NewPrinter()
			var as []string
			for _, c := range in.pc {
				as = append(as, "(assert "+pr.Print(c)+")")
			}
			as = append(as, "(assert "+pr.Print(c)+")")
			sb.WriteString(pr.Flush())
			sb.WriteString(strings.Join(as, "\n"))
			sb.WriteString("\n(check-sat)\n")
			os.WriteFile(fmt.Sprintf("%s.%d.smt2", os.Getenv("SYMGO_SLOWDUMP"), time.Now().UnixNano()), []byte(sb.String()), 0o644)
		}
	}
	in.sol.Send("(pop 1)\n")
	in.E.countQuery()
	if r == "unknown" {
		in.unknowns++
		in.E.noteUnknown(in.harness, in.where())
	}
	return r
}

func (in *Interp) lookupKnown(c *Term) (bool, bool) {
	if c.Op == "not" {
		v, ok := in.known[c.Args[0]]
		return !v, ok
	}
	v, ok := in.known[c]
	return v, ok
}

// Branch decides a symbolic condition, forking the path when both sides are feasible.
func (in *Interp) Branch(c *Term) bool {
	if c.IsConst() {
		return c.U == 1
	}
	if v, ok := in.lookupKnown(c); ok {
		// implied by the path condition: no decision is recorded
		return v
	}
	in.branches++
	if in.pos < len(in.prefix) {
		d := in.prefix[in.pos]
		in.pos++
		in.trace = append(in.trace, d)
		if d == 1 {
			in.assertPC(c)
		} else {
			in.assertPC(in.tb.Not(c))
		}
		return d == 1
	}
	in.pos++
	st := in.checkWith(c)
	if st == "unsat" {
		in.trace = append(in.trace, 0)
		in.assertPC(in.tb.Not(c))
		return false
	}
	sf := in.checkWith(in.tb.Not(c))
	if sf == "unsat" {
		in.trace = append(in.trace, 1)
		in.assertPC(c)
		return true
	}
	alt := make([]int, len(in.trace)+1)
	copy(alt, in.trace)
	alt[len(in.trace)] = 0
	in.E.pushFor(in.curHarness, alt)
	in.E.noteFork(in.where())
	in.trace = append(in.trace, 1)
	in.assertPC(c)
	return true
}

// Choose is an n-way case split that needs no solver.
func (in *Interp) Choose(n int) int {
	if n <= 1 {
		return 0
	}
	if in.pos < len(in.prefix) {
		d := in.prefix[in.pos]
		in.pos++
		in.trace = append(in.trace, d)
		return d
	}
	in.pos++
	in.E.noteFork("choose@" + in.where())
	for k := n - 1; k >= 1; k-- {
		alt := make([]int, len(in.trace)+1)
		copy(alt, in.trace)
		alt[len(in.trace)] = k
		in.E.pushFor(in.curHarness, alt)
	}
	in.trace = append(in.trace, 0)
	return 0
}

// Assume restricts the path; an infeasible assumption ends the path silently.
func (in *Interp) Assume(c *Term) {
	if c.IsTrue() {
		return
	}
	if c.IsFalse() {
		panic(&pathEnd{"assume false"})
	}
	if in.checkWith(c) == "unsat" {
		panic(&pathEnd{"assume infeasible"})
	}
	in.assertPC(c)
}

// Obligation checks that c holds on every model of the path condition.
// kind is "assert" or "panic".
func (in *Interp) Obligation(label string, c *Term, kind string) {
	in.E.countObligation(in.harness, label, c.IsConst())
	if c.IsTrue() {
		return
	}
	nc := in.tb.Not(c)
	r := "sat"
	if !c.IsFalse() {
		if in.E.stop {
			panic(in.abort("exploration stopped (time budget or path cap)"))
		}
		txt := in.pr.Print(nc)
		in.sol.Send(in.pr.Flush())
		in.sol.Send("(push 1)\n(assert " + txt + ")\n")
		r = in.sol.CheckSat()
		in.E.countQuery()
		if r == "sat" {
			in.reportViolation(label, kind)
		}
		in.sol.Send("(pop 1)\n")
	} else {
		in.reportViolationAt(label, kind, in.where(), true)
	}
	switch r {
	case "unsat":
		in.E.countDischarged(in.harness, label)
		return
	case "unknown":
		in.unknowns++
		in.E.noteUnknown(in.harness, "obligation "+label+" at "+in.where())
	}
	if c.IsFalse() {
		panic(&pathEnd{"violated " + label})
	}
	// continue under the assumption that the obligation holds
	if in.checkWith(c) == "unsat" {
		panic(&pathEnd{"violated " + label})
	}
	in.assertPC(c)
}

func (in *Interp) where() string {
	fr := in.curFrame
	for fr != nil {
		if fr.pos.IsValid() {
			p := in.E.Prog.Fset.Position(fr.pos)
			return fmt.Sprintf("%s (%s:%d)", fr.fn.String(), shortPath(p.Filename), p.Line)
		}
		fr = fr.caller
	}
	if in.curFrame != nil {
		return in.curFrame.fn.String()
	}
	return "?"
}

func trunc(s string, n int) string {
	if len(s) > n {
		return s[:n] + "…"
	}
	return s
}

func shortPath(p string) string {
	if i := strings.Index(p, "/pkg/"); i >= 0 && strings.HasPrefix(p, "/repo") {
		return p[len("/repo/"):]
	}
	return p
}

func (in *Interp) stack() []string {
	var out []string
	for fr := in.curFrame; fr != nil; fr = fr.caller {
		p := in.E.Prog.Fset.Position(fr.pos)
		out = append(out, fmt.Sprintf("%s (%s:%d)", fr.fn.String(), shortPath(p.Filename), p.Line))
	}
	return out
}

// ---------- nondeterminism ----------

func (in *Interp) uniqueName(base string) string {
	in.names[base]++
	if n := in.names[base]; n > 1 {
		return fmt.Sprintf("%s#%d", base, n)
	}
	return base
}

func (in *Interp) Nondet(base string, s Sort, kind string) *Term {
	name := in.uniqueName(base)
	t := in.tb.Var(name, s)
	in.nondets = append(in.nondets, nondetRec{name, t, kind})
	return t
}

func (in *Interp) noteUF(t *Term) *Term {
	if !in.ufSeen[t] {
		in.ufSeen[t] = true
		in.ufApps = append(in.ufApps, t)
	}
	return t
}

// ---------- program execution ----------

func (in *Interp) goPanicf(format string, args ...interface{}) {
	// a fault INSIDE a package whose initialiser the executor does not run (its package-level variables are
	// zero: tables, default encodings, ...) says nothing about the code under test: unmodelled, not a panic
	if fr := in.curFrame; fr != nil && fr.fn != nil && fr.fn.Pkg != nil && in.E.skipInit(fr.fn.Pkg.Pkg.Path()) && in.inInit == 0 {
		panic(in.abort("unmodelled: %s inside %s, whose package initialiser is not executed", fmt.Sprintf(format, args...), fr.fn))
	}
	panic(&goPanic{Msg: fmt.Sprintf(format, args...), Pos: in.where()})
}

func (in *Interp) globalAddr(g *ssa.Global) *Value {
	if p, ok := in.globals[g]; ok {
		return p
	}
	// allocate every global of the package, then run its initializer lazily
	if g.Pkg != nil {
		in.ensureInit(g.Pkg)
	}
	if p, ok := in.globals[g]; ok {
		return p
	}
	p := new(Value)
	*p = in.zero(g.Type().(*types.Pointer).Elem())
	in.globals[g] = p
	return p
}

func (in *Interp) ensureInit(pkg *ssa.Package) {
	if in.inited[pkg] {
		return
	}
	in.inited[pkg] = true
	for _, m := range pkg.Members {
		if g, ok := m.(*ssa.Global); ok {
			if _, have := in.globals[g]; !have {
				p := new(Value)
				*p = in.zero(g.Type().(*types.Pointer).Elem())
				in.globals[g] = p
			}
		}
	}
	if in.E.skipInit(pkg.Pkg.Path()) {
		return
	}
	in.E.ensureBuilt(pkg)
	init := pkg.Func("init")
	if init == nil || init.Blocks == nil {
		return
	}
	in.inInit++
	saved := in.curFrame
	in.runFunction(init, nil, nil)
	in.curFrame = saved
	in.inInit--
}

func (in *Interp) get(fr *frame, v ssa.Value) Value {
	switch x := v.(type) {
	case *ssa.Const:
		return in.constValue(x)
	case *ssa.Global:
		return in.globalAddr(x)
	case *ssa.Function:
		return &Closure{Fn: x}
	case *ssa.Builtin:
		return x
	}
	if r, ok := fr.env[v]; ok {
		return r
	}
	panic(in.abort("get: no value for %s (%T) in %s", v.Name(), v, fr.fn))
}

// Call invokes a function value with arguments.
func (in *Interp) Call(fv Value, args []Value) Value {
	switch f := fv.(type) {
	case *Closure:
		if f == nil {
			in.goPanicf("call of nil function")
		}
		if f.Native != nil {
			return f.Native(in, args)
		}
		return in.callFn(f.Fn, args, f.Env)
	case *ssa.Builtin:
		return in.callBuiltin(f, args, nil)
	}
	panic(in.abort("call of non-function %T", fv))
}

func (in *Interp) callFn(fn *ssa.Function, args []Value, env []Value) Value {
	if in.funcsHit != nil && fn.Pkg != nil {
		in.funcsHit[fn] = true
	}
	if r, handled := in.intercept(fn, args); handled {
		return r
	}
	if fn.Pkg != nil {
		if fn.Pkg.Pkg.Path() == "unicode" {
			// the Unicode tables are never initialised (see stubs_unicode.go)
			panic(in.abort("unmodelled-external %s (package unicode runs only through its stubs)", fn.String()))
		}
		in.E.ensureBuilt(fn.Pkg)
	}
	if fn.Blocks == nil {
		panic(in.abort("unmodelled-external %s", fn.String()))
	}
	return in.runFunction(fn, args, env)
}

// runReal runs the real body of fn, bypassing its stub (used by stubs that fall back to the real code).
func (in *Interp) runReal(fn *ssa.Function, args []Value) Value {
	if fn.Pkg != nil {
		in.E.ensureBuilt(fn.Pkg)
	}
	if len(fn.Blocks) == 0 {
		panic(in.abort("unmodelled-external %s", fn.String()))
	}
	return in.runFunction(fn, args, nil)
}

func (in *Interp) runFunction(fn *ssa.Function, args []Value, env []Value) Value {
	in.depth++
	if in.depth > in.E.Cfg.MaxDepth {
		panic(in.abort("call depth limit %d exceeded in %s", in.E.Cfg.MaxDepth, fn))
	}
	fr := &frame{fn: fn, env: make(map[ssa.Value]Value, 16), caller: in.curFrame, visits: map[int]int{}}
	for i, p := range fn.Params {
		if i < len(args) {
			fr.env[p] = args[i]
		} else {
			panic(in.abort("call %s: missing argument %d", fn, i))
		}
	}
	for i, fv := range fn.FreeVars {
		fr.env[fv] = env[i]
	}
	in.curFrame = fr
	fr.block = fn.Blocks[0]
	for fr.block != nil {
		in.runBlock(fr)
	}
	in.curFrame = fr.caller
	in.depth--
	return fr.result
}

// ---- short-circuit merging -----------------------------------------------------------------------
//
// A condition such as  c >= 'A' && c <= 'Z' || c == '-'  (or a switch with several case expressions) is a
// chain of blocks that only compare scalars and branch. Forking at every link multiplies the paths of a
// byte-scan loop by the number of ways the SAME two outcomes can be reached. When the blocks between an
// If and its (at most two) eventual targets are pure tests, the whole chain is decided by ONE branch on
// the disjunction of the link conditions.

type condLeaf struct {
	target, pred *ssa.BasicBlock
	cond         *Term
}

func pureTestInstr(instr ssa.Instruction) bool {
	switch x := instr.(type) {
	case *ssa.BinOp:
		switch x.Op {
		case token.EQL, token.NEQ, token.LSS, token.LEQ, token.GTR, token.GEQ, token.AND, token.OR, token.XOR, token.ADD, token.SUB:
			return isScalarType(x.X.Type()) && isScalarType(x.Y.Type())
		}
		return false
	case *ssa.UnOp:
		return (x.Op == token.NOT || x.Op == token.SUB || x.Op == token.XOR) && isScalarType(x.X.Type())
	case *ssa.Convert:
		return isIntType(x.X.Type()) && isIntType(x.Type())
	case *ssa.DebugRef:
		return true
	}
	return false
}

func isIntType(t types.Type) bool {
	b, ok := under(t).(*types.Basic)
	return ok && b.Info()&types.IsInteger != 0
}

func isScalarType(t types.Type) bool {
	b, ok := under(t).(*types.Basic)
	return ok && b.Info()&(types.IsInteger|types.IsBoolean|types.IsString) != 0
}

// mergedBranch handles an If whose successors lead through pure test blocks to at most two targets.
// It reports false (and changes nothing) when the shape does not apply.
func (in *Interp) mergedBranch(fr *frame, b *ssa.BasicBlock, c *Term) bool {
	if c.IsConst() {
		return false
	}
	isTest := func(blk *ssa.BasicBlock) bool {
		if blk == b || len(blk.Instrs) == 0 || len(blk.Preds) != 1 {
			return false
		}
		if _, ok := blk.Instrs[len(blk.Instrs)-1].(*ssa.If); !ok {
			return false
		}
		for _, instr := range blk.Instrs[:len(blk.Instrs)-1] {
			if !pureTestInstr(instr) {
				return false
			}
		}
		return true
	}
	if !isTest(b.Succs[0]) && !isTest(b.Succs[1]) {
		return false
	}
	tb := in.tb
	var leaves []condLeaf
	budget := 24
	var expand func(blk, pred *ssa.BasicBlock, cond *Term) bool
	expand = func(blk, pred *ssa.BasicBlock, cond *Term) bool {
		if budget--; budget < 0 {
			return false
		}
		if !isTest(blk) {
			leaves = append(leaves, condLeaf{blk, pred, cond})
			return true
		}
		for _, instr := range blk.Instrs[:len(blk.Instrs)-1] {
			if _, ok := instr.(*ssa.DebugRef); ok {
				continue
			}
			in.exec(fr, instr)
		}
		ct, ok := in.get(fr, blk.Instrs[len(blk.Instrs)-1].(*ssa.If).Cond).(*Term)
		if !ok {
			return false
		}
		return expand(blk.Succs[0], blk, tb.And(cond, ct)) && expand(blk.Succs[1], blk, tb.And(cond, tb.Not(ct)))
	}
	if !expand(b.Succs[0], b, c) || !expand(b.Succs[1], b, tb.Not(c)) {
		return false
	}
	// group by target; the phis of a target must not distinguish the merged predecessors
	var targets []*ssa.BasicBlock
	conds := map[*ssa.BasicBlock]*Term{}
	firstPred := map[*ssa.BasicBlock]*ssa.BasicBlock{}
	for _, l := range leaves {
		if _, seen := conds[l.target]; !seen {
			targets = append(targets, l.target)
			conds[l.target] = tb.Bool(false)
			firstPred[l.target] = l.pred
		}
		conds[l.target] = tb.Or(conds[l.target], l.cond)
	}
	if len(targets) != 2 || len(leaves) <= 2 {
		return false
	}
	for _, l := range leaves {
		fp := firstPred[l.target]
		if fp == l.pred {
			continue
		}
		for _, instr := range l.target.Instrs {
			phi, ok := instr.(*ssa.Phi)
			if !ok {
				break
			}
			var va, vb ssa.Value
			for k, p := range l.target.Preds {
				if p == fp {
					va = phi.Edges[k]
				}
				if p == l.pred {
					vb = phi.Edges[k]
				}
			}
			if va != vb {
				ta, oka := in.get(fr, va).(*Term)
				tbv, okb := in.get(fr, vb).(*Term)
				if !oka || !okb || ta != tbv {
					return false
				}
			}
		}
	}
	t0, t1 := targets[0], targets[1]
	if in.Branch(conds[t0]) {
		fr.prev, fr.block = firstPred[t0], t0
	} else {
		fr.prev, fr.block = firstPred[t1], t1
	}
	return true
}

func (in *Interp) runBlock(fr *frame) {
	b := fr.block
	fr.visits[b.Index]++
	if fr.visits[b.Index] > in.E.Cfg.MaxUnwind {
		panic(in.abort("unwind limit %d exceeded in %s block %d", in.E.Cfg.MaxUnwind, fr.fn, b.Index))
	}
	// phis first, simultaneously
	i := 0
	if len(b.Instrs) > 0 {
		if _, ok := b.Instrs[0].(*ssa.Phi); ok {
			var vals []Value
			for ; i < len(b.Instrs); i++ {
				phi, ok := b.Instrs[i].(*ssa.Phi)
				if !ok {
					break
				}
				for k, pred := range b.Preds {
					if pred == fr.prev {
						vals = append(vals, in.get(fr, phi.Edges[k]))
						break
					}
				}
			}
			for k := 0; k < i; k++ {
				fr.env[b.Instrs[k].(*ssa.Phi)] = vals[k]
			}
		}
	}
	for ; i < len(b.Instrs); i++ {
		in.steps++
		if in.steps&1023 == 0 && in.E.stop {
			panic(in.abort("exploration stopped (time budget or path cap)"))
		}
		if in.steps > in.E.Cfg.MaxSteps {
			panic(in.abort("step limit %d exceeded in %s", in.E.Cfg.MaxSteps, fr.fn))
		}
		instr := b.Instrs[i]
		if p := instr.Pos(); p.IsValid() {
			fr.pos = p
		}
		if traceFn != "" && fr.fn.Name() == traceFn {
			fmt.Fprintf(os.Stderr, "TRACE %s b%d: %s\n", fr.fn.Name(), b.Index, instr)
		}
		switch x := instr.(type) {
		case *ssa.Jump:
			fr.prev, fr.block = b, b.Succs[0]
			return
		case *ssa.If:
			c := in.get(fr, x.Cond).(*Term)
			if in.mergedBranch(fr, b, c) {
				return
			}
			fr.prev = b
			if in.Branch(c) {
				fr.block = b.Succs[0]
			} else {
				fr.block = b.Succs[1]
			}
			return
		case *ssa.Return:
			switch len(x.Results) {
			case 0:
			case 1:
				fr.result = copyVal(in.get(fr, x.Results[0]))
			default:
				t := make(Tuple, len(x.Results))
				for k, r := range x.Results {
					t[k] = copyVal(in.get(fr, r))
				}
				fr.result = t
			}
			fr.block = nil
			return
		case *ssa.RunDefers:
			in.runDefers(fr)
		case *ssa.Panic:
			v := in.get(fr, x.X)
			in.goPanicf("panic: %s", in.panicText(v))
		default:
			in.exec(fr, instr)
		}
	}
	panic(in.abort("block without terminator in %s", fr.fn))
}

func (in *Interp) panicText(v Value) string {
	if i, ok := v.(Iface); ok {
		if t, ok := i.V.(*Term); ok && t.IsConst() {
			if t.Sort.K == KStr {
				return t.S
			}
			return fmt.Sprint(t.U)
		}
		if i.T != nil {
			// error values: try Error()
			defer func() { recover() }()
			if m := in.E.Prog.LookupMethod(i.T, nil, "Error"); m != nil {
				r := in.callFn(m, []Value{i.V}, nil)
				if t, ok := r.(*Term); ok && t.IsConst() {
					return t.S
				}
				return describe(r)
			}
			return i.T.String()
		}
	}
	return describe(v)
}

func (in *Interp) runDefers(fr *frame) {
	for len(fr.defers) > 0 {
		d := fr.defers[len(fr.defers)-1]
		fr.defers = fr.defers[:len(fr.defers)-1]
		saved := in.curFrame
		if d.inst.Call.IsInvoke() {
			in.invoke(d.fn.(Iface), d.inst.Call.Method, d.args)
		} else {
			in.Call(d.fn, d.args)
		}
		in.curFrame = saved
	}
}

func (in *Interp) invoke(recv Iface, m *types.Func, args []Value) Value {
	if recv.T == nil {
		in.goPanicf("nil pointer dereference: method %s called on nil interface", m.Name())
	}
	if cl, ok := recv.V.(*nativeObj); ok {
		return cl.invoke(in, m.Name(), args)
	}
	fn := in.E.Prog.LookupMethod(recv.T, m.Pkg(), m.Name())
	if fn == nil {
		panic(in.abort("invoke: method %s not found on %s", m.Name(), recv.T))
	}
	return in.callFn(fn, append([]Value{recv.V}, args...), nil)
}

// nativeObj lets stubs hand out interface values implemented on the host.
type nativeObj struct {
	kind   string
	invoke func(in *Interp, method string, args []Value) Value
	data   interface{}
}

func (in *Interp) callCommon(fr *frame, c *ssa.CallCommon) Value {
	args := make([]Value, len(c.Args))
	for i, a := range c.Args {
		args[i] = copyVal(in.get(fr, a))
	}
	if c.IsInvoke() {
		recv := in.get(fr, c.Value).(Iface)
		return in.invoke(recv, c.Method, args)
	}
	switch f := c.Value.(type) {
	case *ssa.Builtin:
		return in.callBuiltin(f, args, c)
	case *ssa.Function:
		return in.callFn(f, args, nil)
	}
	return in.Call(in.get(fr, c.Value), args)
}

func (in *Interp) exec(fr *frame, instr ssa.Instruction) {
	switch x := instr.(type) {
	case *ssa.DebugRef:
	case *ssa.UnOp:
		fr.env[x] = in.forceTop(in.unop(fr, x))
	case *ssa.BinOp:
		fr.env[x] = in.forceTop(in.binop(x.Op, x.X.Type(), in.get(fr, x.X), in.get(fr, x.Y), x.Y.Type()))
	case *ssa.Call:
		fr.env[x] = in.forceTop(in.callCommon(fr, &x.Call))
	case *ssa.Alloc:
		p := new(Value)
		*p = in.zero(x.Type().(*types.Pointer).Elem())
		fr.env[x] = in.forceTop(p)
	case *ssa.Store:
		p := in.get(fr, x.Addr).(*Value)
		if p == nil {
			in.goPanicf("nil pointer dereference (store)")
		}
		storeInPlace(p, copyVal(in.get(fr, x.Val)))
	case *ssa.FieldAddr:
		p := in.get(fr, x.X).(*Value)
		if p == nil {
			in.goPanicf("nil pointer dereference (field %s)", fieldName(x.X.Type(), x.Field))
		}
		s, ok := (*p).(Struct)
		if !ok {
			panic(in.abort("FieldAddr on %T", *p))
		}
		fr.env[x] = in.forceTop(&s[x.Field])
	case *ssa.Field:
		fr.env[x] = in.forceTop(copyVal(in.get(fr, x.X).(Struct)[x.Field]))
	case *ssa.IndexAddr:
		fr.env[x] = in.forceTop(in.indexAddr(in.get(fr, x.X), in.get(fr, x.Index).(*Term), x.Index.Type()))
	case *ssa.Index:
		fr.env[x] = in.forceTop(in.index(in.get(fr, x.X), in.get(fr, x.Index).(*Term), x.Index.Type()))
	case *ssa.Lookup:
		fr.env[x] = in.forceTop(in.lookup(x, in.get(fr, x.X), in.get(fr, x.Index)))
	case *ssa.Slice:
		fr.env[x] = in.forceTop(in.slice(fr, x))
	case *ssa.MakeSlice:
		n := in.concreteInt(in.get(fr, x.Len).(*Term), "make slice length")
		ct := in.get(fr, x.Cap).(*Term)
		c := n
		if ct.IsConst() {
			c = in.concreteInt(ct, "make slice cap")
		} else {
			// a symbolic capacity is only a pre-sizing hint for the slice model (appends reallocate freely);
			// it must still be at least the length
			in.Obligation("panic:makeslice: cap out of range", in.tb.CmpBV("bvsle", in.tb.BV(ct.Sort.W, uint64(n)), ct), "panic")
		}
		if n < 0 || c < n {
			in.goPanicf("makeslice: len out of range")
		}
		s := make([]Value, n, c)
		et := under(x.Type()).(*types.Slice).Elem()
		full := s[:c]
		for i := range full {
			full[i] = in.zero(et)
		}
		fr.env[x] = in.forceTop(s)
	case *ssa.MakeMap:
		fr.env[x] = in.forceTop(&Map{T: under(x.Type()).(*types.Map)})
	case *ssa.MakeClosure:
		env := make([]Value, len(x.Bindings))
		for i, b := range x.Bindings {
			env[i] = in.get(fr, b)
		}
		fr.env[x] = in.forceTop(&Closure{Fn: x.Fn.(*ssa.Function), Env: env})
	case *ssa.MakeInterface:
		fr.env[x] = in.forceTop(Iface{T: x.X.Type(), V: copyVal(in.get(fr, x.X))})
	case *ssa.ChangeInterface:
		fr.env[x] = in.forceTop(in.get(fr, x.X))
	case *ssa.ChangeType:
		fr.env[x] = in.forceTop(in.get(fr, x.X))
	case *ssa.Convert:
		fr.env[x] = in.forceTop(in.convert(x.X.Type(), x.Type(), in.get(fr, x.X)))
	case *ssa.TypeAssert:
		fr.env[x] = in.forceTop(in.typeAssert(x, in.get(fr, x.X).(Iface)))
	case *ssa.Extract:
		fr.env[x] = in.forceTop(in.get(fr, x.Tuple).(Tuple)[x.Index])
	case *ssa.MapUpdate:
		m := in.get(fr, x.Map).(*Map)
		if m == nil {
			in.goPanicf("assignment to entry in nil map")
		}
		in.mapSet(m, in.get(fr, x.Key), copyVal(in.get(fr, x.Value)))
	case *ssa.Range:
		fr.env[x] = in.forceTop(in.rangeIter(in.get(fr, x.X)))
	case *ssa.Next:
		fr.env[x] = in.forceTop(in.next(x, in.get(fr, x.Iter)))
	case *ssa.Defer:
		args := make([]Value, len(x.Call.Args))
		for i, a := range x.Call.Args {
			args[i] = copyVal(in.get(fr, a))
		}
		fr.defers = append(fr.defers, deferred{fn: in.get(fr, x.Call.Value), args: args, inst: x})
	case *ssa.SliceToArrayPointer:
		s := in.get(fr, x.X)
		sl, ok := s.([]Value)
		if !ok {
			panic(in.abort("SliceToArrayPointer on %T", s))
		}
		n := int(under(x.Type()).(*types.Pointer).Elem().Underlying().(*types.Array).Len())
		if len(sl) < n {
			in.goPanicf("cannot convert slice with length %d to array of length %d", len(sl), n)
		}
		// arrays are represented as Array values behind a cell: no aliasing possible here
		arr := make(Array, n)
		copy(arr, sl[:n])
		p := new(Value)
		*p = arr
		fr.env[x] = in.forceTop(p)
	case *ssa.MakeChan:
		// channels can be created (constructors do) but never used: send/receive/select abort the path
		fr.env[x] = &Opaque{Kind: "chan"}
	case *ssa.Go, *ssa.Send, *ssa.Select:
		panic(in.abort("unsupported instruction %T in %s (concurrency is not modelled)", instr, fr.fn))
	default:
		panic(in.abort("unsupported instruction %T in %s", instr, fr.fn))
	}
}

func fieldName(t types.Type, i int) string {
	if p, ok := under(t).(*types.Pointer); ok {
		if s, ok := under(p.Elem()).(*types.Struct); ok && i < s.NumFields() {
			return s.Field(i).Name()
		}
	}
	return fmt.Sprint(i)
}

func (in *Interp) unop(fr *frame, x *ssa.UnOp) Value {
	v := in.get(fr, x.X)
	switch x.Op {
	case token.MUL: // load
		p, ok := v.(*Value)
		if !ok {
			panic(in.abort("load through %T", v))
		}
		if p == nil {
			in.goPanicf("nil pointer dereference (load %s)", x.X.Name())
		}
		return copyVal(*p)
	case token.NOT:
		return in.tb.Not(v.(*Term))
	case token.SUB:
		if f, ok := v.(Float); ok {
			return Float{in.tb.BinBV("bvxor", f.B, in.tb.BV(64, 1<<63))}
		}
		return in.tb.BVNeg(v.(*Term))
	case token.XOR:
		return in.tb.BVNot(v.(*Term))
	case token.ARROW:
		panic(in.abort("channel receive is not modelled (%s)", fr.fn))
	}
	panic(in.abort("unsupported unop %s", x.Op))
}

// concreteInt forces an integer term to a concrete value, case splitting over a small range if needed.
func (in *Interp) concreteInt(t *Term, what string) int {
	if t.IsConst() {
		return int(sext(t.U, t.Sort.W))
	}
	// enumerate feasible small values 0..MaxEnum
	for k := 0; k <= in.E.Cfg.MaxEnum; k++ {
		if in.Branch(in.tb.Eq(t, in.tb.BV(t.Sort.W, uint64(k)))) {
			return k
		}
	}
	panic(in.abort("symbolic %s not within 0..%d at %s", what, in.E.Cfg.MaxEnum, in.where()))
}

func (in *Interp) typeAssert(x *ssa.TypeAssert, v Iface) Value {
	ok := false
	if v.T != nil {
		if it, isI := under(x.AssertedType).(*types.Interface); isI {
			ok = types.Implements(v.T, it)
		} else {
			ok = types.Identical(v.T, x.AssertedType)
		}
	}
	if !ok && os.Getenv("SYMGO_DEBUGTA") != "" {
		fmt.Fprintf(os.Stderr, "typeAssert fail: have %v want %v at %s\n", v.T, x.AssertedType, in.where())
	}
	var res Value
	if ok {
		if _, isI := under(x.AssertedType).(*types.Interface); isI {
			res = v
		} else {
			res = copyVal(v.V)
		}
	}
	if x.CommaOk {
		if !ok {
			res = in.zero(x.AssertedType)
		}
		return Tuple{res, in.tb.Bool(ok)}
	}
	if !ok {
		if v.T == nil {
			in.goPanicf("interface conversion: interface is nil, not %s", x.AssertedType)
		}
		in.goPanicf("interface conversion: interface is %s, not %s", v.T, x.AssertedType)
	}
	return res
}

// storeInPlace assigns v to *p. A struct or array is written member by member INTO the existing cells, so
// that addresses of its fields / elements taken before the store (FieldAddr, IndexAddr) keep denoting the
// stored object, as they do in Go (the SSA builder takes the field addresses of a composite literal before
// it zeroes the variable).
func storeInPlace(p *Value, v Value) {
	switch nv := v.(type) {
	case Struct:
		if old, ok := (*p).(Struct); ok && len(old) == len(nv) {
			for i := range nv {
				storeInPlace(&old[i], nv[i])
			}
			return
		}
	case Array:
		if old, ok := (*p).(Array); ok && len(old) == len(nv) {
			for i := range nv {
				storeInPlace(&old[i], nv[i])
			}
			return
		}
	}
	*p = v
}

var traceFn = os.Getenv("SYMGO_TRACEFN")

func debugf(format string, args ...interface{}) {
	if os.Getenv("SYMGO_DEBUG") != "" {
		fmt.Fprintf(os.Stderr, format+"\n", args...)
	}
}
