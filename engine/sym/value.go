package sym

import (
	"fmt"
	"go/constant"
	"go/types"
	"math"

	"golang.org/x/tools/go/ssa"
)

// Value is a Go value of the interpreted program:
//
//	*Term            bool / integers / string
//	Float            float64 as BV64 bit pattern
//	*Value           pointer (typed nil pointer = (*Value)(nil))
//	Struct, Array    aggregate values (copied on load/store)
//	[]Value          slice with Go aliasing semantics; nil slice = []Value(nil)
//	SymBytes         an immutable []byte whose content is an SMT string term
//	*Map             map (nil map = (*Map)(nil))
//	Iface            interface value (nil interface = Iface{})
//	*Closure         function value (nil func = (*Closure)(nil))
//	Tuple            multiple results
//	*Opaque          engine-native object (regexp, time, ...)
type Value interface{}

type Struct []Value
type Array []Value
type Tuple []Value

type SymBytes struct{ S *Term }

type Iface struct {
	T types.Type
	V Value
}

type Closure struct {
	Fn  *ssa.Function
	Env []Value
	// Native, when set, is a host implementation
	Native func(in *Interp, args []Value) Value
}

type Opaque struct {
	Kind string
	Data interface{}
}

type mapEntry struct {
	k, v Value
}

type Map struct {
	T       *types.Map
	entries []*mapEntry
	ver     int // bumped on every update / delete
}

// ------------ type helpers ------------

func under(t types.Type) types.Type { return t.Underlying() }

func intInfo(t types.Type) (w int, signed bool, ok bool) {
	b, isB := under(t).(*types.Basic)
	if !isB {
		return 0, false, false
	}
	switch b.Kind() {
	case types.Int8:
		return 8, true, true
	case types.Int16:
		return 16, true, true
	case types.Int32:
		return 32, true, true
	case types.Int64, types.Int, types.UntypedInt, types.UntypedRune:
		return 64, true, true
	case types.Uint8:
		return 8, false, true
	case types.Uint16:
		return 16, false, true
	case types.Uint32:
		return 32, false, true
	case types.Uint64, types.Uint, types.Uintptr:
		return 64, false, true
	}
	return 0, false, false
}

func isString(t types.Type) bool {
	b, ok := under(t).(*types.Basic)
	return ok && b.Info()&types.IsString != 0
}
func isBool(t types.Type) bool {
	b, ok := under(t).(*types.Basic)
	return ok && b.Info()&types.IsBoolean != 0
}
func isFloat(t types.Type) bool {
	b, ok := under(t).(*types.Basic)
	return ok && b.Info()&types.IsFloat != 0
}

// zero returns the zero value of t.
func (in *Interp) zero(t types.Type) Value {
	switch u := under(t).(type) {
	case *types.Basic:
		if u.Kind() == types.UnsafePointer {
			return (*Value)(nil)
		}
		if u.Kind() == types.UntypedNil || u.Kind() == types.Invalid {
			return nil
		}
		if w, _, ok := intInfo(u); ok {
			return in.tb.BV(w, 0)
		}
		if isString(u) {
			return in.tb.Str("")
		}
		if isBool(u) {
			return in.tb.Bool(false)
		}
		if isFloat(u) {
			return Float{in.tb.BV(64, 0)}
		}
		panic(in.abort("zero: unsupported basic type %s", t))
	case *types.Pointer:
		return (*Value)(nil)
	case *types.Struct:
		s := make(Struct, u.NumFields())
		for i := range s {
			s[i] = in.zero(u.Field(i).Type())
		}
		return s
	case *types.Array:
		a := make(Array, u.Len())
		for i := range a {
			a[i] = in.zero(u.Elem())
		}
		return a
	case *types.Slice:
		return []Value(nil)
	case *types.Map:
		return (*Map)(nil)
	case *types.Interface:
		return Iface{}
	case *types.Signature:
		return (*Closure)(nil)
	case *types.Chan:
		return (*Opaque)(nil)
	case *types.Tuple:
		tu := make(Tuple, u.Len())
		for i := range tu {
			tu[i] = in.zero(u.At(i).Type())
		}
		return tu
	}
	panic(in.abort("zero: unsupported type %s", t))
}

// Float is a float64 value carried as its IEEE-754 bit pattern (BV64 term).
type Float struct{ B *Term }

// copyVal copies aggregate values (structs, arrays); references are shared.
func copyVal(v Value) Value {
	switch x := v.(type) {
	case Struct:
		c := make(Struct, len(x))
		for i, f := range x {
			c[i] = copyVal(f)
		}
		return c
	case Array:
		c := make(Array, len(x))
		for i, f := range x {
			c[i] = copyVal(f)
		}
		return c
	case Tuple:
		c := make(Tuple, len(x))
		for i, f := range x {
			c[i] = copyVal(f)
		}
		return c
	}
	return v
}

// constValue converts an SSA constant.
func (in *Interp) constValue(c *ssa.Const) Value {
	if c.Value == nil {
		return in.zero(c.Type())
	}
	t := c.Type()
	if tp, ok := t.(*types.TypeParam); ok {
		_ = tp
		panic(in.abort("const of type parameter type"))
	}
	if w, signed, ok := intInfo(t); ok {
		if c.Value.Kind() == constant.Float {
			f, _ := constant.Float64Val(c.Value)
			return in.tb.BV(w, uint64(int64(f)))
		}
		if signed {
			return in.tb.BV(w, uint64(c.Int64()))
		}
		return in.tb.BV(w, c.Uint64())
	}
	if isString(t) {
		if c.Value.Kind() == constant.String {
			return in.tb.Str(constant.StringVal(c.Value))
		}
		return in.tb.Str(string(rune(c.Int64())))
	}
	if isBool(t) {
		return in.tb.Bool(constant.BoolVal(c.Value))
	}
	if isFloat(t) {
		return Float{in.tb.BV(64, math.Float64bits(c.Float64()))}
	}
	panic(in.abort("const: unsupported type %s", t))
}

func (in *Interp) abort(format string, args ...interface{}) *pathAbort {
	return &pathAbort{Reason: fmt.Sprintf(format, args...)}
}

// describe renders a value for diagnostics.
func describe(v Value) string {
	switch x := v.(type) {
	case *Term:
		if x == nil {
			return "<nil term>"
		}
		return NewPrinter().Print(x)
	case *Value:
		if x == nil {
			return "nil"
		}
		return fmt.Sprintf("&%s", describe(*x))
	case *Lazy:
		if x.forced {
			return describe(x.val)
		}
		return "<lazy " + x.name + ">"
	case Struct:
		s := "{"
		for i, f := range x {
			if i > 0 {
				s += ", "
			}
			s += describe(f)
		}
		return s + "}"
	case []Value:
		if x == nil {
			return "[]nil"
		}
		s := "["
		for i, f := range x {
			if i > 0 {
				s += ", "
			}
			s += describe(f)
		}
		return s + "]"
	case Iface:
		if x.T == nil {
			return "iface(nil)"
		}
		return fmt.Sprintf("iface(%s:%s)", x.T, describe(x.V))
	case SymBytes:
		return "bytes(" + describe(x.S) + ")"
	case *Map:
		if x == nil {
			return "map(nil)"
		}
		s := "map{"
		for i, e := range x.entries {
			if i > 0 {
				s += ", "
			}
			s += describe(e.k) + ": " + describe(e.v)
		}
		return s + "}"
	}
	return fmt.Sprintf("%T", v)
}
