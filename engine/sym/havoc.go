package sym

import (
	"fmt"
	"go/types"
)

type havocBounds struct {
	MaxSlice int // slice lengths 0..MaxSlice
	MaxDepth int // nesting depth for interface{} JSON values and pointers
	MaxMap   int // map sizes 0..MaxMap
}

var defaultHavocBounds = havocBounds{MaxSlice: 2, MaxDepth: 2, MaxMap: 2}

// havoc builds an arbitrary value of type t: scalars are fresh solver variables, shapes
// (nil-ness, lengths, dynamic kinds of interface{}) are case splits.
func (in *Interp) havoc(name string, t types.Type, depth int) Value {
	tb := in.tb
	switch u := under(t).(type) {
	case *types.Basic:
		if w, _, ok := intInfo(u); ok {
			return in.Nondet(name, BVSort(w), "bv")
		}
		if isString(u) {
			return in.Nondet(name, SortStr, "string")
		}
		if isBool(u) {
			return in.Nondet(name, SortBool, "bool")
		}
		if isFloat(u) {
			return Float{in.Nondet(name, BVSort(64), "float")}
		}
		return in.zero(t)
	case *types.Pointer:
		if depth > in.hb.MaxDepth+2 || in.Choose(2) == 0 {
			return (*Value)(nil)
		}
		p := new(Value)
		*p = in.havocNested(name+".*", u.Elem(), depth+1)
		return p
	case *types.Struct:
		s := make(Struct, u.NumFields())
		for i := range s {
			s[i] = in.havocNested(name+"."+u.Field(i).Name(), u.Field(i).Type(), depth)
		}
		return s
	case *types.Array:
		a := make(Array, u.Len())
		for i := range a {
			a[i] = in.havocNested(fmt.Sprintf("%s[%d]", name, i), u.Elem(), depth)
		}
		return a
	case *types.Slice:
		if b, ok := under(u.Elem()).(*types.Basic); ok && b.Kind() == types.Uint8 {
			// []byte: nil, or an opaque byte string of symbolic length
			if in.Choose(2) == 0 {
				return []Value(nil)
			}
			return SymBytes{in.Nondet(name, SortStr, "bytes")}
		}
		// length 0..MaxSlice; the empty list is the nil slice (absent and empty JSON lists are not
		// distinguished: the code base only ever takes len() of decoded lists)
		n := in.Choose(in.hb.MaxSlice+1) + 1
		if n == 1 {
			return []Value(nil)
		}
		s := make([]Value, n-1)
		for i := range s {
			s[i] = in.havocNested(fmt.Sprintf("%s[%d]", name, i), u.Elem(), depth+1)
		}
		return s
	case *types.Map:
		n := in.Choose(in.hb.MaxMap + 2)
		if n == 0 {
			return (*Map)(nil)
		}
		m := &Map{T: u}
		for i := 0; i < n-1; i++ {
			k := in.havoc(fmt.Sprintf("%s.key%d", name, i), u.Key(), depth+1)
			// keys of a map are pairwise distinct
			for _, e := range m.entries {
				in.Assume(tb.Not(in.equal(e.k, k)))
			}
			v := in.havocNested(fmt.Sprintf("%s.val%d", name, i), u.Elem(), depth+1)
			m.entries = append(m.entries, &mapEntry{k, v})
		}
		return m
	case *types.Interface:
		if u.NumMethods() == 0 {
			return in.havocJSON(name, depth)
		}
		return Iface{}
	case *types.Signature:
		return (*Closure)(nil)
	}
	panic(in.abort("havoc: unsupported type %s", t))
}

// types used for JSON values decoded into interface{}
var (
	tString  = types.Typ[types.String]
	tFloat64 = types.Typ[types.Float64]
	tBool    = types.Typ[types.Bool]
	tAny     = types.NewInterfaceType(nil, nil)
	tAnySl   = types.NewSlice(tAny)
	tAnyMap  = types.NewMap(tString, tAny)
)

// havocJSON builds an arbitrary value of the shape encoding/json produces for interface{}.
func (in *Interp) havocJSON(name string, depth int) Value {
	kinds := 6
	if depth >= in.hb.MaxDepth {
		kinds = 4 // leaves only
	}
	switch in.Choose(kinds) {
	case 0:
		return Iface{}
	case 1:
		return Iface{T: tString, V: in.Nondet(name, SortStr, "string")}
	case 2:
		return Iface{T: tFloat64, V: Float{in.Nondet(name, BVSort(64), "float")}}
	case 3:
		return Iface{T: tBool, V: in.Nondet(name, SortBool, "bool")}
	case 4:
		n := in.Choose(in.hb.MaxSlice + 1)
		s := make([]Value, n)
		for i := range s {
			s[i] = &Lazy{t: tAny, name: fmt.Sprintf("%s[%d]", name, i), depth: depth + 1, hb: in.hb}
		}
		return Iface{T: tAnySl, V: s}
	default:
		n := in.Choose(in.hb.MaxMap + 1)
		m := &Map{T: tAnyMap}
		for i := 0; i < n; i++ {
			k := in.Nondet(fmt.Sprintf("%s.key%d", name, i), SortStr, "string")
			for _, e := range m.entries {
				in.Assume(in.tb.Not(in.equal(e.k, k)))
			}
			m.entries = append(m.entries, &mapEntry{k, &Lazy{t: tAny, name: fmt.Sprintf("%s.val%d", name, i), depth: depth + 1, hb: in.hb}})
		}
		return Iface{T: tAnyMap, V: m}
	}
}

// Lazy is a havoc'd value whose shape has not been chosen yet (lazy initialisation): it is forced
// the first time the program looks at it, so shapes that are never inspected cost no paths.
type Lazy struct {
	t      types.Type
	name   string
	depth  int
	hb     havocBounds
	forced bool
	val    Value
	src    *Lazy // deep copy of another lazy value
}

func (in *Interp) havocNested(name string, t types.Type, depth int) Value {
	switch u := under(t).(type) {
	case *types.Pointer, *types.Slice, *types.Map:
		return &Lazy{t: t, name: name, depth: depth, hb: in.hb}
	case *types.Interface:
		if u.NumMethods() == 0 {
			return &Lazy{t: t, name: name, depth: depth, hb: in.hb}
		}
	}
	return in.havoc(name, t, depth)
}

// force resolves a lazy value (and is the identity on everything else).
func (in *Interp) force(v Value) Value {
	l, ok := v.(*Lazy)
	if !ok {
		return v
	}
	if l.forced {
		return l.val
	}
	if l.src != nil {
		l.val = deepCopy(in.force(l.src))
	} else {
		saved := in.hb
		in.hb = l.hb
		l.val = in.havoc(l.name, l.t, l.depth)
		in.hb = saved
	}
	l.forced = true
	return l.val
}

func (in *Interp) forceTop(v Value) Value {
	switch x := v.(type) {
	case *Lazy:
		return in.force(x)
	case Tuple:
		for i := range x {
			if _, ok := x[i].(*Lazy); ok {
				x[i] = in.force(x[i])
			}
		}
	}
	return v
}
