package sym

import (
	"fmt"
	"regexp"
	"regexp/syntax"
	"strconv"
	"strings"

	"golang.org/x/tools/go/ssa"
)

// reToSMT translates a Go regular expression (anchors, literals, classes, repetition,
// concatenation, alternation, groups) to an SMT-LIB RegLan term matching the WHOLE string.
func reToSMT(pattern string) (string, error) {
	re, err := syntax.Parse(pattern, syntax.Perl)
	if err != nil {
		return "", err
	}
	re = re.Simplify()
	begin, end := false, false
	subs := []*syntax.Regexp{re}
	if re.Op == syntax.OpConcat {
		subs = re.Sub
	}
	if len(subs) > 0 && subs[0].Op == syntax.OpBeginText {
		begin = true
		subs = subs[1:]
	}
	if len(subs) > 0 && subs[len(subs)-1].Op == syntax.OpEndText {
		end = true
		subs = subs[:len(subs)-1]
	}
	var parts []string
	if !begin {
		parts = append(parts, "re.all")
	}
	for _, s := range subs {
		t, err := reNode(s)
		if err != nil {
			return "", err
		}
		parts = append(parts, t)
	}
	if !end {
		parts = append(parts, "re.all")
	}
	switch len(parts) {
	case 0:
		return `(str.to_re "")`, nil
	case 1:
		return parts[0], nil
	}
	return "(re.++ " + strings.Join(parts, " ") + ")", nil
}

func reChar(r rune) string {
	if r > 255 {
		r = 255
	}
	return smtStr(string([]byte{byte(r)}))
}

func reNode(re *syntax.Regexp) (string, error) {
	switch re.Op {
	case syntax.OpLiteral:
		var b []byte
		for _, r := range re.Rune {
			if r > 255 {
				return "", fmt.Errorf("non-byte literal in regex")
			}
			b = append(b, byte(r))
		}
		return "(str.to_re " + smtStr(string(b)) + ")", nil
	case syntax.OpCharClass:
		var alts []string
		for i := 0; i+1 < len(re.Rune); i += 2 {
			lo, hi := re.Rune[i], re.Rune[i+1]
			if lo > 255 {
				continue
			}
			if hi > 255 {
				hi = 255
			}
			if lo == hi {
				alts = append(alts, "(str.to_re "+reChar(lo)+")")
			} else {
				alts = append(alts, "(re.range "+reChar(lo)+" "+reChar(hi)+")")
			}
		}
		if len(alts) == 0 {
			return "re.none", nil
		}
		if len(alts) == 1 {
			return alts[0], nil
		}
		return "(re.union " + strings.Join(alts, " ") + ")", nil
	case syntax.OpAnyChar, syntax.OpAnyCharNotNL:
		return "re.allchar", nil
	case syntax.OpEmptyMatch:
		return `(str.to_re "")`, nil
	case syntax.OpCapture:
		return reNode(re.Sub[0])
	case syntax.OpStar, syntax.OpPlus, syntax.OpQuest:
		s, err := reNode(re.Sub[0])
		if err != nil {
			return "", err
		}
		op := map[syntax.Op]string{syntax.OpStar: "re.*", syntax.OpPlus: "re.+", syntax.OpQuest: "re.opt"}[re.Op]
		return "(" + op + " " + s + ")", nil
	case syntax.OpRepeat:
		s, err := reNode(re.Sub[0])
		if err != nil {
			return "", err
		}
		if re.Max < 0 {
			return fmt.Sprintf("(re.++ ((_ re.^ %d) %s) (re.* %s))", re.Min, s, s), nil
		}
		return fmt.Sprintf("((_ re.loop %d %d) %s)", re.Min, re.Max, s), nil
	case syntax.OpConcat, syntax.OpAlternate:
		var ps []string
		for _, sub := range re.Sub {
			p, err := reNode(sub)
			if err != nil {
				return "", err
			}
			ps = append(ps, p)
		}
		op := "re.++"
		if re.Op == syntax.OpAlternate {
			op = "re.union"
		}
		if len(ps) == 1 {
			return ps[0], nil
		}
		return "(" + op + " " + strings.Join(ps, " ") + ")", nil
	}
	return "", fmt.Errorf("regex operator %v not supported", re.Op)
}

func init() {
	extraStubs = append(extraStubs, func(e *Engine) {
		e.Stubs["regexp.MustCompile"] = func(in *Interp, fn *ssa.Function, args []Value) (Value, bool) {
			pat := in.constStr(args[0], "regexp pattern")
			p := new(Value)
			*p = Struct{&Opaque{Kind: "regexp", Data: pat}}
			return p, true
		}
		e.Stubs["(*regexp.Regexp).MatchString"] = func(in *Interp, fn *ssa.Function, args []Value) (Value, bool) {
			p := args[0].(*Value)
			pat := (*p).(Struct)[0].(*Opaque).Data.(string)
			s := args[1].(*Term)
			if s.IsConst() {
				return in.tb.Bool(regexp.MustCompile(pat).MatchString(s.S)), true
			}
			rl, err := reToSMT(pat)
			if err != nil {
				panic(in.abort("regexp %q: %v", pat, err))
			}
			r := in.tb.intern(&Term{Op: "raw", Sort: Sort{K: KInt, W: -7}, S: rl})
			return in.tb.app("str.in_re", SortBool, s, r), true
		}
		e.Stubs["strconv.Atoi"] = func(in *Interp, fn *ssa.Function, args []Value) (Value, bool) {
			s := args[0].(*Term)
			tb := in.tb
			if s.IsConst() {
				n, err := strconv.Atoi(s.S)
				if err != nil {
					return Tuple{tb.BV(64, 0), in.NewError(tb.Str("strconv.Atoi: parsing: invalid syntax"))}, true
				}
				return Tuple{tb.BV(64, uint64(int64(n))), Iface{}}, true
			}
			// digits only (a leading sign is folded into the error outcome: over-approximation that
			// callers in this code base exclude by a regular expression first)
			n := tb.app("str.to_int", SortInt, s)
			bad := tb.Or(tb.IntCmp("<", n, tb.Int(0)), tb.IntCmp(">=", n, tb.intern(&Term{Op: "raw", Sort: SortInt, S: "9223372036854775808"})))
			if in.Branch(bad) {
				return Tuple{tb.BV(64, 0), in.NewError(tb.Str("strconv.Atoi: parsing: invalid syntax"))}, true
			}
			return Tuple{tb.IntToBV(n, 64), Iface{}}, true
		}
	})
}
