package sym

import (
	"bufio"
	"fmt"
	"io"
	"os"
	"os/exec"
	"strconv"
	"strings"
	"time"
)

// Solver is one long-lived SMT solver process.
type Solver struct {
	Name    string
	cmd     *exec.Cmd
	in      io.WriteCloser
	out     *bufio.Reader
	Queries int
	Time    time.Duration
	Errors  []string
	log     io.Writer
	dead    bool
}

// SolverMemoryMB caps one solver process (16 workers x 3 GB stays below the machine's memory); a solver
// that hits the cap dies or errors out, which is reported as unknown, never as an answer.
var SolverMemoryMB = 3000

// SolverCmd returns the command line for a named back end.
func SolverCmd(name string, timeoutMs int) []string {
	switch name {
	case "z3":
		return []string{"z3", "-in", fmt.Sprintf("-t:%d", timeoutMs), fmt.Sprintf("-memory:%d", SolverMemoryMB)}
	case "cvc5":
		return []string{"cvc5", "--incremental", "--strings-exp", "--lang=smt2", fmt.Sprintf("--tlimit-per=%d", timeoutMs), "--produce-models"}
	default:
		return []string{"z3-new", "-in", fmt.Sprintf("-t:%d", timeoutMs), fmt.Sprintf("-memory:%d", SolverMemoryMB)}
	}
}

func NewSolver(name string, timeoutMs int) (*Solver, error) {
	argv := SolverCmd(name, timeoutMs)
	cmd := exec.Command(argv[0], argv[1:]...)
	in, err := cmd.StdinPipe()
	if err != nil {
		return nil, err
	}
	outp, err := cmd.StdoutPipe()
	if err != nil {
		return nil, err
	}
	cmd.Stderr = os.Stderr
	if err := cmd.Start(); err != nil {
		return nil, err
	}
	s := &Solver{Name: name, cmd: cmd, in: in, out: bufio.NewReaderSize(outp, 1<<16)}
	if p := os.Getenv("SYMGO_SMTLOG"); p != "" {
		f, _ := os.OpenFile(fmt.Sprintf("%s.%d", p, cmd.Process.Pid), os.O_CREATE|os.O_WRONLY|os.O_TRUNC, 0o644)
		s.log = f
	}
	s.Send("(set-option :produce-models true)\n")
	if name == "cvc5" {
		s.Send("(set-logic ALL)\n")
	}
	return s, nil
}

func (s *Solver) Send(txt string) {
	if s.dead {
		return
	}
	if s.log != nil {
		io.WriteString(s.log, txt)
	}
	if _, err := io.WriteString(s.in, txt); err != nil {
		s.dead = true
		s.Errors = append(s.Errors, "write: "+err.Error())
	}
}

// Dead reports that the solver process is gone (killed, out of memory, broken pipe).
func (s *Solver) Dead() bool { return s.dead }

func (s *Solver) Close() {
	if s.cmd != nil {
		s.in.Close()
		s.cmd.Process.Kill()
		s.cmd.Wait()
	}
}

func (s *Solver) readLine() string {
	l, err := s.out.ReadString('\n')
	if err != nil {
		s.dead = true
		s.Errors = append(s.Errors, "read: "+err.Error())
		return "(error \"solver died\")"
	}
	return strings.TrimSpace(l)
}

// CheckSat returns "sat", "unsat" or "unknown" (any error line is reported as unknown).
func (s *Solver) CheckSat() string {
	if s.dead {
		return "unknown"
	}
	t0 := time.Now()
	s.Send("(check-sat)\n")
	s.Queries++
	var r string
	for {
		r = s.readLine()
		if s.dead {
			r = "unknown"
			break
		}
		if r == "" {
			continue
		}
		if strings.HasPrefix(r, "(error") {
			s.Errors = append(s.Errors, r)
			r = s.drainError(r)
			continue
		}
		break
	}
	s.Time += time.Since(t0)
	if len(s.Errors) > 0 && r != "unknown" {
		// an error line was seen somewhere before this answer: the answer may rest on a dropped assertion
		return "unknown"
	}
	switch r {
	case "sat", "unsat":
		return r
	}
	return "unknown"
}

func (s *Solver) drainError(first string) string {
	// consume until parentheses balance (errors may span lines)
	depth := parenDepth(first)
	for depth > 0 {
		l := s.readLine()
		depth += parenDepth(l)
		if s.dead {
			break
		}
	}
	return ""
}

func parenDepth(l string) int {
	d := 0
	inStr := false
	for i := 0; i < len(l); i++ {
		c := l[i]
		if c == '"' {
			inStr = !inStr
		}
		if inStr {
			continue
		}
		if c == '(' {
			d++
		} else if c == ')' {
			d--
		}
	}
	return d
}

// GetValues asks for the model values of the given printed terms; returns raw SMT value strings.
func (s *Solver) GetValues(exprs []string) ([]string, error) {
	if len(exprs) == 0 {
		return nil, nil
	}
	s.Send("(get-value (" + strings.Join(exprs, " ") + "))\n")
	var sb strings.Builder
	depth := 0
	started := false
	for {
		l := s.readLine()
		if s.dead {
			return nil, fmt.Errorf("solver died")
		}
		if l == "" {
			continue
		}
		sb.WriteString(l)
		sb.WriteByte('\n')
		depth += parenDepth(l)
		started = true
		if started && depth <= 0 {
			break
		}
	}
	txt := sb.String()
	if strings.HasPrefix(strings.TrimSpace(txt), "(error") {
		return nil, fmt.Errorf("get-value: %s", txt)
	}
	sx, _, err := parseSexp(txt, 0)
	if err != nil {
		return nil, err
	}
	if len(sx.list) != len(exprs) {
		return nil, fmt.Errorf("get-value: expected %d pairs, got %d: %s", len(exprs), len(sx.list), txt)
	}
	out := make([]string, len(exprs))
	for i, p := range sx.list {
		if len(p.list) != 2 {
			return nil, fmt.Errorf("get-value: bad pair")
		}
		out[i] = p.list[1].String()
	}
	return out, nil
}

type sexp struct {
	atom string
	list []*sexp
	isL  bool
}

func (s *sexp) String() string {
	if !s.isL {
		return s.atom
	}
	var parts []string
	for _, e := range s.list {
		parts = append(parts, e.String())
	}
	return "(" + strings.Join(parts, " ") + ")"
}

func parseSexp(t string, i int) (*sexp, int, error) {
	for i < len(t) && (t[i] == ' ' || t[i] == '\n' || t[i] == '\t' || t[i] == '\r') {
		i++
	}
	if i >= len(t) {
		return nil, i, fmt.Errorf("eof")
	}
	if t[i] == '(' {
		i++
		n := &sexp{isL: true}
		for {
			for i < len(t) && (t[i] == ' ' || t[i] == '\n' || t[i] == '\t' || t[i] == '\r') {
				i++
			}
			if i >= len(t) {
				return nil, i, fmt.Errorf("eof in list")
			}
			if t[i] == ')' {
				return n, i + 1, nil
			}
			c, j, err := parseSexp(t, i)
			if err != nil {
				return nil, j, err
			}
			n.list = append(n.list, c)
			i = j
		}
	}
	if t[i] == '"' {
		j := i + 1
		for j < len(t) {
			if t[j] == '"' {
				if j+1 < len(t) && t[j+1] == '"' {
					j += 2
					continue
				}
				break
			}
			j++
		}
		return &sexp{atom: t[i : j+1]}, j + 1, nil
	}
	if t[i] == '|' {
		j := i + 1
		for j < len(t) && t[j] != '|' {
			j++
		}
		return &sexp{atom: t[i : j+1]}, j + 1, nil
	}
	j := i
	for j < len(t) && !strings.ContainsRune(" \n\t\r()", rune(t[j])) {
		j++
	}
	return &sexp{atom: t[i:j]}, j, nil
}

// ParseBV parses #x.. / #b.. / (_ bvN w) into a uint64.
func ParseBV(v string) (uint64, bool) {
	v = strings.TrimSpace(v)
	if strings.HasPrefix(v, "#x") {
		u, err := strconv.ParseUint(v[2:], 16, 64)
		return u, err == nil
	}
	if strings.HasPrefix(v, "#b") {
		u, err := strconv.ParseUint(v[2:], 2, 64)
		return u, err == nil
	}
	if strings.HasPrefix(v, "(_ bv") {
		f := strings.Fields(v[5:])
		u, err := strconv.ParseUint(f[0], 10, 64)
		return u, err == nil
	}
	return 0, false
}

// ParseInt parses an SMT Int value ("5", "(- 5)").
func ParseInt(v string) (int64, bool) {
	v = strings.TrimSpace(v)
	if strings.HasPrefix(v, "(-") {
		x, err := strconv.ParseInt(strings.TrimSpace(strings.TrimSuffix(v[2:], ")")), 10, 64)
		return -x, err == nil
	}
	x, err := strconv.ParseInt(v, 10, 64)
	return x, err == nil
}

// ParseStr parses an SMT string literal into Go bytes (chars > 255 are reduced mod 256).
func ParseStr(v string) (string, bool) {
	v = strings.TrimSpace(v)
	if len(v) < 2 || v[0] != '"' {
		return "", false
	}
	v = v[1 : len(v)-1]
	var out []byte
	for i := 0; i < len(v); i++ {
		c := v[i]
		if c == '"' && i+1 < len(v) && v[i+1] == '"' {
			out = append(out, '"')
			i++
			continue
		}
		if c == '\\' && i+1 < len(v) && v[i+1] == 'u' {
			// \u{X..} or \uXXXX
			if i+2 < len(v) && v[i+2] == '{' {
				j := strings.IndexByte(v[i:], '}')
				if j > 0 {
					u, err := strconv.ParseUint(v[i+3:i+j], 16, 32)
					if err == nil {
						out = append(out, byte(u))
						i += j
						continue
					}
				}
			} else if i+5 < len(v) {
				u, err := strconv.ParseUint(v[i+2:i+6], 16, 32)
				if err == nil {
					out = append(out, byte(u))
					i += 5
					continue
				}
			}
		}
		if c == '\\' && i+1 < len(v) && v[i+1] == 'x' && i+3 < len(v) {
			u, err := strconv.ParseUint(v[i+2:i+4], 16, 32)
			if err == nil {
				out = append(out, byte(u))
				i += 3
				continue
			}
		}
		out = append(out, c)
	}
	return string(out), true
}
