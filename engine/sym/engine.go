package sym

import (
	"fmt"
	"go/types"
	"math"
	"os"
	"runtime/debug"
	"sort"
	"strings"
	"sync"
	"time"

	"golang.org/x/tools/go/ssa"
)

func f64(u uint64) float64     { return math.Float64frombits(u) }
func f64bits(f float64) uint64 { return math.Float64bits(f) }

// Config bounds an exploration.
type Config struct {
	MaxSteps      int
	MaxDepth      int
	MaxUnwind     int
	MaxEnum       int
	MaxPaths      int
	Workers       int
	Solver        string
	TimeoutMs     int
	ModPath       string // module path of the code under test
	MaxSeconds    int    // wall-clock budget for the exploration
	MaxStrExplode int    // strings.ToUpper/ToLower/EqualFold/TrimSpace run as real code on strings up to this many bytes (uninterpreted beyond)
}

func DefaultConfig() Config {
	return Config{MaxSteps: 2_000_000, MaxDepth: 200, MaxUnwind: 64, MaxEnum: 8, MaxPaths: 2_000_000, Workers: 16,
		Solver: "z3-new", TimeoutMs: 20000, MaxSeconds: 900, MaxStrExplode: 4, ModPath: "github.com/trustbloc/sidetree-core-go"}
}

// Violation is a counterexample to an obligation.
type Violation struct {
	Harness string                 `json:"harness"`
	Label   string                 `json:"label"`
	Kind    string                 `json:"kind"` // assert | panic
	Where   string                 `json:"where"`
	Stack   []string               `json:"stack,omitempty"`
	Trace   []int                  `json:"trace"`
	Vars    map[string]interface{} `json:"vars"`
	UFs     map[string][]UFEntry   `json:"ufs,omitempty"`
	Logs    []string               `json:"logs,omitempty"`
	Count   int                    `json:"count"`
	Replay  string                 `json:"replay,omitempty"`
	Native  string                 `json:"native,omitempty"`
}

type UFEntry struct {
	Args []interface{} `json:"args"`
	Ret  interface{}   `json:"ret"`
}

// HarnessResult accumulates everything observed for one harness entry point.
type HarnessResult struct {
	Name        string
	Paths       int
	Branches    int
	Steps       int
	Obligations int
	Trivial     int
	Discharged  int
	Violations  map[string]*Violation
	Covers      map[string]int
	Skipped     string // set by VSkip: the harness's lemma does not apply to this tree
	CoverWit    map[string]*Violation
	Aborts      map[string]int
	Unknowns    map[string]int
	Known       map[string]int
	Samples     []string
	Labels      map[string]int
	Assumptions map[string]bool
	PathsEnded  int
}

type workItem struct {
	h      *ssa.Function
	prefix []int
}

// Engine owns the program and the shared exploration state.
type Engine struct {
	Prog  *ssa.Program
	Cfg   Config
	Stubs map[string]StubFn
	Open  map[string]bool // open known-finding ids

	mu               sync.Mutex
	cond             *sync.Cond
	stack            []workItem
	active           int
	results          map[string]*HarnessResult
	queries          int
	funcs            map[*ssa.Function]bool
	stop             bool
	solverT          time.Duration
	solverQ          int
	pathsRun         int
	curItem          map[*Interp]*ssa.Function
	errLines         []string
	forks            map[string]int
	SolverFor        map[string]string
	built            sync.Map
	buildMu          sync.Mutex
	errT             types.Type
	WantCoverWitness bool
	Bounds           map[string]map[string]int
}

func NewEngine(prog *ssa.Program, cfg Config) *Engine {
	e := &Engine{Prog: prog, Cfg: cfg, Stubs: map[string]StubFn{}, results: map[string]*HarnessResult{}, funcs: map[*ssa.Function]bool{}, Open: map[string]bool{}}
	e.cond = sync.NewCond(&e.mu)
	registerStubs(e)
	return e
}

func (e *Engine) res(name string) *HarnessResult {
	r, ok := e.results[name]
	if !ok {
		r = &HarnessResult{Name: name, Violations: map[string]*Violation{}, Covers: map[string]int{}, CoverWit: map[string]*Violation{},
			Aborts: map[string]int{}, Unknowns: map[string]int{}, Known: map[string]int{}, Labels: map[string]int{}, Assumptions: map[string]bool{}}
		e.results[name] = r
	}
	return r
}

func (e *Engine) pushFor(h *ssa.Function, prefix []int) {
	e.mu.Lock()
	e.stack = append(e.stack, workItem{h, prefix})
	e.mu.Unlock()
	e.cond.Signal()
}

// ensureBuilt builds a package's SSA bodies exactly once, before any worker looks at them
// (checking fn.Blocks instead would race with a build in progress on another worker).
func (e *Engine) ensureBuilt(p *ssa.Package) {
	if _, ok := e.built.Load(p); ok {
		return
	}
	e.buildMu.Lock()
	if _, ok := e.built.Load(p); !ok {
		p.Build()
		e.built.Store(p, true)
	}
	e.buildMu.Unlock()
}

func (e *Engine) noteFork(where string) {
	e.mu.Lock()
	if e.forks == nil {
		e.forks = map[string]int{}
	}
	e.forks[where]++
	e.mu.Unlock()
}

// ForkSites returns the source locations where paths forked, most frequent first.
func (e *Engine) ForkSites(n int) []string {
	type kv struct {
		k string
		v int
	}
	var l []kv
	for k, v := range e.forks {
		l = append(l, kv{k, v})
	}
	sort.Slice(l, func(i, j int) bool { return l[i].v > l[j].v })
	var out []string
	for i, x := range l {
		if i >= n {
			break
		}
		out = append(out, fmt.Sprintf("%6d %s", x.v, x.k))
	}
	return out
}

func (e *Engine) countQuery() {
	e.mu.Lock()
	e.queries++
	e.mu.Unlock()
}

func (e *Engine) countObligation(h, label string, trivial bool) {
	e.mu.Lock()
	r := e.res(h)
	r.Obligations++
	r.Labels[label]++
	if trivial {
		r.Trivial++
	}
	e.mu.Unlock()
}

func (e *Engine) countDischarged(h, label string) {
	e.mu.Lock()
	e.res(h).Discharged++
	e.mu.Unlock()
}

func (e *Engine) noteUnknown(h, where string) {
	e.mu.Lock()
	e.res(h).Unknowns[where]++
	e.mu.Unlock()
}

func (e *Engine) noteAssumption(a string) {
	e.mu.Lock()
	for _, r := range e.results {
		r.Assumptions[a] = true
	}
	e.mu.Unlock()
}

func (e *Engine) skipInit(path string) bool {
	// package initialisers that are never executed (their globals stay zero; stubs cover their use).
	// Entries ending in "/" match a whole tree, the others one package.
	for _, p := range []string{"go.uber.org/", "github.com/trustbloc/logutil-go/", "os", "os/", "syscall", "runtime", "runtime/", "time", "reflect", "internal/",
		"sync", "sync/", "net", "net/", "crypto", "crypto/", "encoding/json", "encoding/base64", "encoding/hex", "unicode", "regexp", "regexp/", "fmt", "log", "io/", "bufio",
		"math/big", "math/rand", "compress/", "hash", "hash/", "testing", "flag", "context", "go.opentelemetry.io/", "github.com/stretchr/",
		"github.com/square/go-jose/", "github.com/btcsuite/", "golang.org/x/crypto/"} {
		if path == p || (strings.HasSuffix(p, "/") && strings.HasPrefix(path, p)) {
			return true
		}
	}
	return false
}

// Run explores the given harness entry points to completion (or until a bound is hit).
func (e *Engine) Run(harnesses []*ssa.Function) {
	for _, h := range harnesses {
		e.res(h.Name())
		e.stack = append(e.stack, workItem{h, nil})
	}
	var wg sync.WaitGroup
	done := make(chan struct{})
	go func() {
		t0 := time.Now()
		tick := time.NewTicker(5 * time.Second)
		defer tick.Stop()
		for {
			select {
			case <-done:
				return
			case <-tick.C:
				e.mu.Lock()
				if os.Getenv("SYMGO_PROGRESS") != "" {
					fmt.Fprintf(os.Stderr, "[%4.0fs] paths=%d queued=%d active=%d queries=%d\n", time.Since(t0).Seconds(), e.pathsRun, len(e.stack), e.active, e.queries)
				}
				if int(time.Since(t0).Seconds()) > e.Cfg.MaxSeconds+180 {
					// a worker is stuck inside a solver call or a host loop: give up loudly
					fmt.Printf("INCONCLUSIVE exploration did not stop %ds after its time budget of %ds; aborting\n", 180, e.Cfg.MaxSeconds)
					os.Exit(2)
				}
				if int(time.Since(t0).Seconds()) > e.Cfg.MaxSeconds && !e.stop {
					e.stop = true
					for _, it := range e.stack {
						e.res(it.h.Name()).Aborts[fmt.Sprintf("time budget %ds exhausted with paths still queued", e.Cfg.MaxSeconds)]++
						break
					}
					if len(e.stack) == 0 {
						for _, r := range e.results {
							r.Aborts[fmt.Sprintf("time budget %ds exhausted", e.Cfg.MaxSeconds)]++
							break
						}
					}
					e.cond.Broadcast()
				}
				e.mu.Unlock()
			}
		}
	}()
	defer close(done)
	for w := 0; w < e.Cfg.Workers; w++ {
		wg.Add(1)
		go func(id int) {
			defer wg.Done()
			sols := map[string]*Solver{}
			defer func() {
				for _, sol := range sols {
					e.mu.Lock()
					e.solverT += sol.Time
					e.solverQ += sol.Queries
					e.mu.Unlock()
					sol.Close()
				}
			}()
			in := &Interp{E: e, funcsHit: map[*ssa.Function]bool{}}
			for {
				e.mu.Lock()
				for len(e.stack) == 0 && e.active > 0 && !e.stop {
					e.cond.Wait()
				}
				if e.stop || (len(e.stack) == 0 && e.active == 0) {
					e.mu.Unlock()
					e.cond.Broadcast()
					break
				}
				var it workItem
				if id < (e.Cfg.Workers+3)/4 && len(e.stack) > 1 {
					// a quarter of the workers are breadth scouts: they take the OLDEST pending alternative
					// (the shallowest fork), so a violation that sits a few decisions from the root is met
					// early even when the depth-first workers are lost in an exploding subtree
					it = e.stack[0]
					e.stack = e.stack[1:]
				} else {
					it = e.stack[len(e.stack)-1]
					e.stack = e.stack[:len(e.stack)-1]
				}
				e.active++
				e.pathsRun++
				over := e.pathsRun > e.Cfg.MaxPaths
				e.mu.Unlock()
				if over {
					e.mu.Lock()
					e.res(it.h.Name()).Aborts[fmt.Sprintf("path cap %d exceeded", e.Cfg.MaxPaths)]++
					e.stop = true
					e.active--
					e.mu.Unlock()
					e.cond.Broadcast()
					break
				}
				sname := e.Cfg.Solver
				if o, ok := e.SolverFor[it.h.Name()]; ok && o != "" {
					sname = o
				}
				if sols[sname] != nil && sols[sname].Dead() {
					e.mu.Lock()
					e.solverT += sols[sname].Time
					e.solverQ += sols[sname].Queries
					e.mu.Unlock()
					sols[sname].Close()
					sols[sname] = nil
				}
				if sols[sname] == nil {
					sol, err := NewSolver(sname, e.Cfg.TimeoutMs)
					if err != nil {
						fmt.Fprintln(os.Stderr, "solver start:", err)
						e.mu.Lock()
						e.res(it.h.Name()).Aborts["cannot start solver "+sname]++
						e.active--
						e.mu.Unlock()
						e.cond.Broadcast()
						continue
					}
					sols[sname] = sol
				}
				in.sol = sols[sname]
				in.runPath(it)
				e.mu.Lock()
				e.active--
				for f := range in.funcsHit {
					e.funcs[f] = true
				}
				e.mu.Unlock()
				e.cond.Broadcast()
			}
		}(w)
	}
	wg.Wait()
}

func (in *Interp) runPath(it workItem) {
	in.harness = it.h.Name()
	in.curHarness = it.h
	in.resetPath(it.prefix)
	e := in.E
	status := "done"
	reason := ""
	func() {
		defer func() {
			if r := recover(); r != nil {
				switch x := r.(type) {
				case *pathAbort:
					status, reason = "abort", x.Reason+" @ "+in.where()
				case *pathEnd:
					status, reason = "end", x.Reason
				case *goPanic:
					status, reason = "panic", x.Msg
					in.reportPanic(x)
				default:
					status, reason = "abort", fmt.Sprintf("engine fault: %v @ %s\n%s", r, in.where(), trimStack(debug.Stack()))
				}
			}
		}()
		in.callFn(it.h, nil, nil)
	}()
	e.mu.Lock()
	r := e.res(in.harness)
	r.Branches += in.branches
	r.Steps += in.steps
	switch status {
	case "done", "panic":
		r.Paths++
	case "end":
		r.PathsEnded++
	case "abort":
		r.Aborts[reason]++
	}
	for _, s := range in.samples {
		if len(r.Samples) < 12 {
			r.Samples = append(r.Samples, s)
		}
	}
	if len(in.sol.Errors) > 0 {
		for _, er := range in.sol.Errors {
			r.Aborts["solver error: "+er]++
		}
	}
	e.mu.Unlock()
}

func trimStack(b []byte) string {
	lines := strings.Split(string(b), "\n")
	var out []string
	for _, l := range lines {
		if strings.Contains(l, "verif/engine/sym") && strings.Contains(l, ".go:") {
			out = append(out, strings.TrimSpace(l))
		}
		if len(out) >= 8 {
			break
		}
	}
	return strings.Join(out, " <- ")
}

// reportPanic records a Go panic reached on a feasible path (an implicit obligation).
func (in *Interp) reportPanic(p *goPanic) {
	in.E.countObligation(in.harness, "panic:"+p.Msg, true)
	in.reportViolationAt("panic:"+p.Msg, "panic", p.Pos, true)
}

func (in *Interp) reportViolation(label, kind string) {
	in.reportViolationAt(label, kind, in.where(), false)
}

// reportViolationAt extracts a model. When needCheck is set, the solver state is the bare path
// condition and a check-sat is issued first.
func (in *Interp) reportViolationAt(label, kind, where string, needCheck bool) {
	if needCheck {
		if r := in.sol.CheckSat(); r != "sat" {
			in.E.countQuery()
			if r == "unknown" {
				in.E.noteUnknown(in.harness, "model for "+label)
			}
			// keep going: report without model
		}
	}
	v := in.extractWitness(label, kind, where)
	e := in.E
	e.mu.Lock()
	r := e.res(in.harness)
	if old, ok := r.Violations[label]; ok {
		old.Count++
	} else {
		v.Count = 1
		r.Violations[label] = v
	}
	e.mu.Unlock()
}

func (in *Interp) extractWitness(label, kind, where string) *Violation {
	v := &Violation{Harness: in.harness, Label: label, Kind: kind, Where: where, Stack: in.stack(),
		Trace: append([]int(nil), in.trace...), Vars: map[string]interface{}{}, UFs: map[string][]UFEntry{}, Logs: append([]string(nil), in.logs...)}
	var exprs []string
	// only terms the solver has already seen are queried: anything else is unconstrained, and
	// declaring it here (inside a pushed scope) would be lost on pop
	var nds []nondetRec
	for _, n := range in.nondets {
		if _, seen := in.pr.memo[n.T]; seen || n.T.IsConst() {
			nds = append(nds, n)
			exprs = append(exprs, in.pr.Print(n.T))
		} else {
			v.Vars[n.Name] = defaultVal(n.T.Sort)
		}
	}
	type ufq struct {
		t    *Term
		from int
		n    int
	}
	var ufqs []ufq
	for _, t := range in.ufApps {
		if _, seen := in.pr.memo[t]; !seen {
			continue
		}
		q := ufq{t: t, from: len(exprs)}
		for _, a := range t.Args {
			exprs = append(exprs, in.pr.Print(a))
		}
		exprs = append(exprs, in.pr.Print(t))
		q.n = len(t.Args) + 1
		ufqs = append(ufqs, q)
	}
	in.sol.Send(in.pr.Flush())
	vals, err := in.sol.GetValues(exprs)
	if err != nil {
		v.Vars["_error"] = err.Error()
		return v
	}
	for i, n := range nds {
		v.Vars[n.Name] = decodeVal(n.T.Sort, vals[i])
	}
	for _, q := range ufqs {
		ent := UFEntry{}
		for k, a := range q.t.Args {
			ent.Args = append(ent.Args, decodeVal(a.Sort, vals[q.from+k]))
		}
		ent.Ret = decodeVal(q.t.Sort, vals[q.from+q.n-1])
		name := q.t.Op[3:]
		v.UFs[name] = append(v.UFs[name], ent)
	}
	return v
}

func defaultVal(s Sort) interface{} {
	switch s.K {
	case KBool:
		return false
	case KBV:
		if s.W == 64 {
			return "0"
		}
		return 0
	case KStr:
		return ""
	}
	return 0
}

func decodeVal(s Sort, raw string) interface{} {
	switch s.K {
	case KBool:
		return raw == "true"
	case KBV:
		if u, ok := ParseBV(raw); ok {
			if s.W == 64 {
				return fmt.Sprintf("%d", u) // JSON numbers lose 64-bit precision
			}
			return u
		}
	case KStr:
		if str, ok := ParseStr(raw); ok {
			return str
		}
	case KInt:
		if i, ok := ParseInt(raw); ok {
			return i
		}
	}
	return "raw:" + raw
}

// Results returns harness results sorted by name.
func (e *Engine) Results() []*HarnessResult {
	var out []*HarnessResult
	for _, r := range e.results {
		out = append(out, r)
	}
	sort.Slice(out, func(i, j int) bool { return out[i].Name < out[j].Name })
	return out
}

func (e *Engine) SolverStats() (int, time.Duration) { return e.solverQ, e.solverT }

// FuncsEncoded lists the functions of the module under test that were symbolically executed.
func (e *Engine) FuncsEncoded() []string {
	var out []string
	for f := range e.funcs {
		if f.Pkg == nil || !strings.HasPrefix(f.Pkg.Pkg.Path(), e.Cfg.ModPath) {
			continue
		}
		if strings.HasPrefix(f.Name(), "V") && (strings.HasPrefix(f.Name(), "VHarness") || isIntrinsic(f.Name())) {
			continue
		}
		n := 0
		for _, b := range f.Blocks {
			n += len(b.Instrs)
		}
		out = append(out, fmt.Sprintf("%s (%d instrs)", strings.TrimPrefix(f.String(), e.Cfg.ModPath+"/"), n))
	}
	sort.Strings(out)
	return out
}
