package sym

import (
	"unicode"

	"golang.org/x/tools/go/ssa"
)

// The Unicode tables are package-level data whose initialiser is far too large to interpret per path,
// so package unicode never runs as real code: predicates and case mappings are exact on Latin-1 / ASCII
// and uninterpreted beyond; anything else in the package is reported as unmodelled (inconclusive),
// never executed against uninitialised tables.
func init() {
	extraStubs = append(extraStubs, func(e *Engine) {
		preds := map[string]func(rune) bool{"IsSpace": unicode.IsSpace, "IsDigit": unicode.IsDigit, "IsLetter": unicode.IsLetter,
			"IsUpper": unicode.IsUpper, "IsLower": unicode.IsLower, "IsPunct": unicode.IsPunct, "IsControl": unicode.IsControl,
			"IsPrint": unicode.IsPrint, "IsGraphic": unicode.IsGraphic, "IsNumber": unicode.IsNumber, "IsMark": unicode.IsMark,
			"IsSymbol": unicode.IsSymbol, "IsTitle": unicode.IsTitle}
		for nm, host := range preds {
			nm, host := nm, host
			e.Stubs["unicode."+nm] = func(in *Interp, fn *ssa.Function, args []Value) (Value, bool) {
				r := args[0].(*Term)
				tb := in.tb
				if r.IsConst() {
					return tb.Bool(host(rune(int32(r.U)))), true
				}
				// exact on Latin-1 (maximal runs of the host predicate), uninterpreted beyond
				lat := tb.Bool(false)
				for lo := 0; lo < 256; lo++ {
					if !host(rune(lo)) {
						continue
					}
					hi := lo
					for hi+1 < 256 && host(rune(hi+1)) {
						hi++
					}
					lat = tb.Or(lat, tb.And(tb.CmpBV("bvule", tb.BV(32, uint64(lo)), r), tb.CmpBV("bvule", r, tb.BV(32, uint64(hi)))))
					lo = hi
				}
				return tb.Ite(tb.CmpBV("bvule", r, tb.BV(32, 255)), lat, in.noteUF(tb.UF("unicode."+nm, SortBool, r))), true
			}
		}
		maps := map[string]func(rune) rune{"ToUpper": unicode.ToUpper, "ToLower": unicode.ToLower, "ToTitle": unicode.ToTitle, "SimpleFold": unicode.SimpleFold}
		for nm, host := range maps {
			nm, host := nm, host
			e.Stubs["unicode."+nm] = func(in *Interp, fn *ssa.Function, args []Value) (Value, bool) {
				r := args[0].(*Term)
				tb := in.tb
				if r.IsConst() {
					return tb.BV(32, uint64(uint32(host(rune(int32(r.U)))))), true
				}
				// exact on ASCII, uninterpreted beyond
				out := in.noteUF(tb.UF("unicode."+nm, BVSort(32), r))
				for c := 127; c >= 0; c-- {
					if m := host(rune(c)); m != rune(c) {
						out = tb.Ite(tb.Eq(r, tb.BV(32, uint64(c))), tb.BV(32, uint64(uint32(m))), out)
					}
				}
				asciiID := tb.CmpBV("bvule", r, tb.BV(32, 127))
				// identity on the ASCII characters the mapping leaves alone
				fix := tb.Bool(true)
				for c := 0; c < 128; c++ {
					if host(rune(c)) != rune(c) {
						fix = tb.And(fix, tb.Not(tb.Eq(r, tb.BV(32, uint64(c)))))
					}
				}
				return tb.Ite(tb.And(asciiID, fix), r, out), true
			}
		}
	})
}
